package rules

import (
	"fmt"
	"go/token"
	"go/types"
	"reflect"
	"strings"

	"golang.org/x/tools/go/ssa"

	"wtfverif/checker/internal/interval"
	"wtfverif/checker/internal/load"
	"wtfverif/checker/internal/pathev"
	"wtfverif/checker/internal/ssau"
	"wtfverif/checker/internal/symx"
)

const histPkg = load.ModulePath + "/internal/history"

func init() {
	register(&Rule{
		Prop: "C16",
		Explanation: "Per-operation protocol of history.SearchHistory decided on the SSA form with versioned memory (all paths, all inputs): (O-1) in AddEntry every append to Entries is followed on all paths by the test len(Entries) > MaxSize whose true branch keeps the SUFFIX Entries[len-MaxSize:] (newest entries), with the same memory versions in test and reslice; no other write to Entries; (O-2) the MaxSize used as a slice bound is proven >= 0 on every path by an interval analysis over guards and stores (the value is decoded from the file by json.Unmarshal, so only a guard in AddEntry or a re-validation after the decode can establish it); " +
			"(O-3) the append is unreachable when the last entry's Query equals the new query — that branch overwrites Entries[len-1] and returns — and the index len-1 is guarded by len > 0; the recorded entry's Query and ResultsCount are the arguments; (O-4) Save marshals and Load unmarshals the receiver itself, Entries and MaxSize (and the entry fields) are exported with distinct json keys, FilePath is json:\"-\", a failed decode returns an error; (O-5) the frequency and unique-query tables count every entry exactly once per iteration of a range over Entries, TotalSearches is len(Entries), GetRecentQueries walks from len-1 downwards by one and appends a query only when it was not seen. " +
			"Equality with a reference log over arbitrary histories is NOT decided.",
		NotDecided:  []string{"equivalence with a reference log over all add/save/load/clear histories", "encoding/json round trip of arbitrary strings (library behaviour)", "tie order among equally frequent queries in GetTopQueries"},
		Assumptions: []string{"encoding/json fills exported tagged fields and leaves others untouched", "the write protocol of Save is the subject of C09"},
		Run:         runC16,
	})
}

// histFieldLoad: v is a load of sh.<field> for any *SearchHistory base.
func histFieldLoad(v ssa.Value, field string) (*ssa.UnOp, bool) {
	u, ok := v.(*ssa.UnOp)
	if !ok || u.Op != token.MUL {
		return nil, false
	}
	if _, ok := ssau.IsFieldAddr(u.X, histType, field); !ok {
		return nil, false
	}
	return u, true
}

// lenOfEntries: v == len(sh.Entries) -> the load.
func lenOfEntries(v ssa.Value) (*ssa.UnOp, bool) {
	call, ok := v.(*ssa.Call)
	if !ok || ssau.CallName(call) != "builtin.len" {
		return nil, false
	}
	return histFieldLoad(call.Common().Args[0], "Entries")
}

func runC16(c *Ctx) {
	r := c.R
	r.Rule("O-1", "keep-newest trim: every append to Entries in AddEntry is followed on all paths by `len(Entries) > MaxSize` whose true branch stores Entries[len(Entries)-MaxSize:] (suffix, open high bound) back; no other store to Entries")
	r.Rule("O-2", "the decoded MaxSize is validated before it is used as a slice bound: at the trim MaxSize >= 0 is established on every path (guard or default in AddEntry, or re-validation after every decode)")
	r.Rule("O-3", "duplicate collapse: the append is unreachable when Entries[len-1].Query == query; that branch overwrites the last element with the new entry and returns; the index is guarded by len > 0; the entry records the query and result count given")
	r.Rule("O-4", "round trip: Save marshals and Load unmarshals the receiver; every success exit of Save lies behind the write of the file (a skip is decided only by a modified flag that every change of the log sets); Entries, MaxSize and the SearchEntry fields are exported with distinct json keys, FilePath is json:\"-\"; a failed read or decode is returned as an error")
	r.Rule("O-5", "views: frequency and unique tables count each entry exactly once per iteration over Entries; TotalSearches is len(Entries); GetRecentQueries walks from len-1 down by one, appends only unseen queries and stops at the limit")

	sx := symx.New(c.P.IsRepoFunc)
	add := c.P.Func("internal/history", "SearchHistory", "AddEntry")
	if r.Anchor("O-1", "history.(*SearchHistory).AddEntry", add != nil) {
		c16AddEntry(c, sx, add)
	}
	c16RoundTrip(c)
	c16Views(c, sx)
}

func c16AddEntry(c *Ctx, sx *symx.Ctx, fn *ssa.Function) {
	r := c.R
	f := sx.Of(fn)
	fk := "history.(*SearchHistory).AddEntry"
	pd := ssau.NewPostDom(fn)

	var appends, trims, others []*ssa.Store
	ssau.ForEachInstr(fn, true, func(in ssa.Instruction) {
		st, ok := in.(*ssa.Store)
		if !ok {
			return
		}
		if _, ok := ssau.IsFieldAddr(st.Addr, histType, "Entries"); !ok {
			return
		}
		switch v := st.Val.(type) {
		case *ssa.Call:
			if ssau.CallName(v) == "builtin.append" {
				if _, ok := histFieldLoad(v.Common().Args[0], "Entries"); ok {
					appends = append(appends, st)
					return
				}
			}
		case *ssa.Slice:
			if _, ok := histFieldLoad(v.X, "Entries"); ok {
				trims = append(trims, st)
				return
			}
		}
		others = append(others, st)
	})

	// the new entry literal: fields come from the parameters
	entryOK := func(v ssa.Value) (bool, string) {
		u, ok := v.(*ssa.UnOp)
		if !ok || u.Op != token.MUL {
			return false, "the recorded value is not a SearchEntry literal of this call"
		}
		al, ok := u.X.(*ssa.Alloc)
		if !ok {
			return false, "the recorded value is not a SearchEntry literal of this call"
		}
		got := map[string]ssa.Value{}
		for _, ref := range *al.Referrers() {
			if fa, ok := ref.(*ssa.FieldAddr); ok {
				for _, r2 := range *fa.Referrers() {
					if st, ok := r2.(*ssa.Store); ok && st.Addr == ssa.Value(fa) {
						got[ssau.FieldName(fa)] = st.Val
					}
				}
			}
		}
		if len(fn.Params) < 3 {
			return false, "unexpected signature"
		}
		if got["Query"] != ssa.Value(fn.Params[1]) {
			return false, "entry.Query is not the query argument"
		}
		if got["ResultsCount"] != ssa.Value(fn.Params[2]) {
			return false, "entry.ResultsCount is not the resultsCount argument"
		}
		return true, ""
	}

	recordsArgs := func(call *ssa.Call) (bool, string) {
		elemOK, why := false, "the appended slice is not a one-element literal"
		if sl, ok := call.Common().Args[1].(*ssa.Slice); ok {
			if al, ok := sl.X.(*ssa.Alloc); ok {
				n := 0
				for _, ref := range *al.Referrers() {
					if ia, ok := ref.(*ssa.IndexAddr); ok {
						for _, r2 := range *ia.Referrers() {
							if st, ok := r2.(*ssa.Store); ok {
								n++
								elemOK, why = entryOK(st.Val)
							}
						}
					}
				}
				if n != 1 {
					elemOK, why = false, fmt.Sprintf("%d elements appended (want 1)", n)
				}
			}
		}
		return elemOK, why
	}
	collapse := func(key string, apBlock *ssa.BasicBlock, apPos token.Pos) {
		// O-3: collapse
		var dup *ssa.If
		var lastPtr *ssa.Call
		for _, iff := range ssau.Ifs(fn) {
			op, x, y, ok := ssau.CondOf(iff.Cond)
			if !ok || op != token.EQL {
				continue
			}
			if y != ssa.Value(fn.Params[1]) {
				x, y = y, x
			}
			if y != ssa.Value(fn.Params[1]) {
				continue
			}
			// x = Entries[len(Entries)-1].Query
			u, ok := x.(*ssa.UnOp)
			if !ok {
				continue
			}
			fa, ok := u.X.(*ssa.FieldAddr)
			if !ok || ssau.FieldName(fa) != "Query" {
				continue
			}
			// through an accessor: last := sh.lastEntry() — nil for an empty
			// history, else &Entries[len(Entries)-1] — tested non-nil first
			if lc, isCall := fa.X.(*ssa.Call); isCall && c16LastEntryAccessor(c, sx, lc, fn) {
				cut := map[[2]int]bool{}
				for _, i2 := range ssau.Ifs(fn) {
					op2, x2, y2, ok2 := ssau.CondOf(i2.Cond)
					if !ok2 {
						continue
					}
					if ssau.IsNilConst(x2) {
						x2, y2 = y2, x2
					}
					if x2 != ssa.Value(lc) || !ssau.IsNilConst(y2) {
						continue
					}
					switch op2 {
					case token.NEQ:
						cut[[2]int{i2.Block().Index, 0}] = true
					case token.EQL:
						cut[[2]int{i2.Block().Index, 1}] = true
					}
				}
				guarded := len(cut) > 0 && !ssau.ReachableAvoidingEdges(fn, u.Block(), cut)
				r.Check(guarded, "O-3", fk+"#last-index-guarded", c.P.Pos(u.Pos()), "the last entry is read only when the accessor returned non-nil (a non-empty history)", "the last entry is read without a dominating non-nil test of the accessor's result: an empty history panics")
				dup, lastPtr = iff, lc
				continue
			}
			ia, ok := fa.X.(*ssa.IndexAddr)
			if !ok {
				continue
			}
			el, ok := histFieldLoad(ia.X, "Entries")
			if !ok {
				continue
			}
			if f.E(ia.Index) != "(len("+f.E(el)+") - 1)" {
				continue
			}
			dup = iff
			q := interval.New(f)
			iv := q.At(ia.Index, iff.Block())
			r.Check(iv.LoOK && iv.Lo >= 0, "O-3", fk+"#last-index-guarded", c.P.Pos(ia.Pos()), "len(Entries)-1 >= 0 by the dominating len(Entries) > 0", "Entries[len(Entries)-1] is read without a dominating len(Entries) > 0: an empty history panics")
		}
		if dup == nil {
			r.Bad("O-3", key+":collapse-test", c.P.Pos(apPos), "no test `Entries[len(Entries)-1].Query == query` guards the append: an immediately repeated query adds a second entry")
			return
		}
		tsucc := dup.Block().Succs[0]
		reach := blocksReachable(dup.Block(), map[[2]int]bool{{dup.Block().Index, 1}: true})
		r.Check(!reach[apBlock], "O-3", key+":collapse-test", c.P.Pos(dup.Pos()), "the append is unreachable when the last query equals the new one", "the append is still reachable when the last entry's query equals the new query")
		// overwrite of the last element on the true side
		found := false
		ssau.ForEachInstr(fn, false, func(in ssa.Instruction) {
			st, ok := in.(*ssa.Store)
			if !ok || !reach[st.Block()] {
				return
			}
			if lastPtr != nil && st.Addr == ssa.Value(lastPtr) {
				if ok, _ := entryOK(st.Val); ok && (st.Block() == tsucc || pd.PostDominates(st.Block(), tsucc)) {
					found = true
				}
				return
			}
			ia, ok := st.Addr.(*ssa.IndexAddr)
			if !ok {
				return
			}
			el, ok := histFieldLoad(ia.X, "Entries")
			if !ok {
				return
			}
			if f.E(ia.Index) != "(len("+f.E(el)+") - 1)" {
				return
			}
			if ok, _ := entryOK(st.Val); ok && (st.Block() == tsucc || pd.PostDominates(st.Block(), tsucc)) {
				found = true
			}
		})
		r.Check(found, "O-3", key+":collapse-updates-last", c.P.Pos(dup.Pos()), "the repeated query overwrites Entries[len-1] with the new entry", "on the repeated-query branch the last entry is not overwritten with the new entry on every path")
	}
	// The list may be worked on in local variables and stored back once:
	//   list := append(sh.Entries, entry); if len(list)-max > 0 { list = list[len(list)-max:] }; sh.Entries = list
	// The same obligations are then read off the value that is stored.
	if len(appends) == 0 && len(trims) == 0 && len(others) > 0 {
		if c16AddEntryValueForm(c, f, fn, fk, others, recordsArgs, collapse) {
			return
		}
	}
	for i, st := range others {
		r.Bad("O-1", fmt.Sprintf("%s#entries-store-other-%d", fk, i+1), c.P.Pos(st.Pos()), "Entries is replaced by a value that is neither append(Entries, entry) nor a reslice of Entries: "+f.Plain(st.Val))
	}
	r.Floor("O-1", "append sites in AddEntry", len(appends), 1)
	usedTrim := map[*ssa.Store]bool{}
	for i, ap := range appends {
		key := fmt.Sprintf("%s#append-%d", fk, i+1)
		// appended element is the new entry
		call := ap.Val.(*ssa.Call)
		elemOK, why := recordsArgs(call)
		r.Check(elemOK, "O-3", key+":records-arguments", c.P.Pos(ap.Pos()), "append(Entries, entry) with entry.Query = query, entry.ResultsCount = resultsCount", why)

		// version created by this store
		vA := fmt.Sprintf("i%d.%d", ap.Block().Index, ssau.InstrIndex(ap))
		// the size test, in any spelling: a branch whose true side is taken exactly
		// when len(Entries) - MaxSize > 0 for the slice just appended to
		// (len > Max; excess := len - Max; excess > 0; len - Max >= 1; ...)
		if !c16TrimChecks(c, f, fn, fk, key, pd, trims, ap.Block(), ap.Pos(), vA, usedTrim) {
			// the trimming may be a step called after the append: a method of the
			// history that is reached on every path from the append, before any
			// other change of Entries
			if !c16TrimStep(c, sx, fn, fk, key, pd, ap) {
				r.Bad("O-1", key+":trim-test", c.P.Pos(ap.Pos()), "no test `len(Entries) > MaxSize` on the slice just appended to: the history can grow beyond its maximum")
				continue
			}
		}
		collapse(key, ap.Block(), ap.Pos())
	}
	for i, t := range trims {
		if !usedTrim[t] {
			r.Bad("O-1", fmt.Sprintf("%s#stray-reslice-%d", fk, i+1), c.P.Pos(t.Pos()), "Entries is resliced outside the size test: "+f.Plain(t.Val))
		}
	}
}

// c16MaxSizeInvariant: alternative discharge of O-2 — every store to MaxSize
// anywhere stores a value proven >= 1 and every json decode into a
// SearchHistory is followed on all paths to the function's exits by such a
// validation. Conservative: only the constructor-plus-revalidation shape is
// recognised.
func c16MaxSizeInvariant(c *Ctx) bool {
	sx := symx.New(c.P.IsRepoFunc)
	okAll := true
	nDecode := 0
	for _, fn := range shippedFuncs(c) {
		f := sx.Of(fn)
		ssau.ForEachInstr(fn, false, func(in ssa.Instruction) {
			switch x := in.(type) {
			case *ssa.Store:
				if _, ok := ssau.IsFieldAddr(x.Addr, histType, "MaxSize"); ok {
					iv := interval.New(f).WithCallees(sx, c.P.IsRepoFunc).At(x.Val, x.Block())
					if !(iv.LoOK && iv.Lo >= 0) {
						okAll = false
					}
				}
			case *ssa.Call:
				if ssau.CallName(x) == "encoding/json.Unmarshal" && ssau.NamedOf(ssau.Strip(x.Common().Args[1]).Type()) == histType {
					nDecode++
					// after the decode, every return must see MaxSize >= 0
					for _, ret := range ssau.ReturnsOf(fn) {
						if !blocksReachable(x.Block(), nil)[ret.Block()] && ret.Block() != x.Block() {
							continue
						}
						// find a load-independent proof: the version of MaxSize at the return must be a store/join proven >= 0
						key := "f:" + histType + ".MaxSize"
						ver := f.OutVersion(ret.Block(), key)
						iv := interval.New(f).MemAt(key, baseName(fn)+".MaxSize", ver, ret.Block())
						if !(iv.LoOK && iv.Lo >= 0) {
							okAll = false
						}
					}
				}
			}
		})
	}
	return okAll && nDecode > 0
}

func baseName(fn *ssa.Function) string {
	if len(fn.Params) > 0 {
		return fn.Params[0].Name()
	}
	return "?"
}

func c16RoundTrip(c *Ctx) {
	r := c.R
	pk := c.P.Pkg("internal/history")
	if !r.Anchor("O-4", "package history", pk != nil) {
		return
	}
	checkStruct := func(name string, mustKey []string, mustDash []string) {
		obj := pk.Types.Scope().Lookup(name)
		if obj == nil {
			r.Unknown("O-4", "history."+name, "", "type not found")
			return
		}
		st, ok := obj.Type().Underlying().(*types.Struct)
		if !ok {
			r.Unknown("O-4", "history."+name, "", "not a struct")
			return
		}
		keys := map[string]string{}
		for i := 0; i < st.NumFields(); i++ {
			fd := st.Field(i)
			tag := reflect.StructTag(st.Tag(i)).Get("json")
			k := strings.Split(tag, ",")[0]
			if k == "" {
				k = fd.Name()
			}
			ck := "history." + name + "." + fd.Name() + "#json"
			isDash := k == "-" && !strings.Contains(tag, ",")
			want := ""
			for _, m := range mustKey {
				if m == fd.Name() {
					want = "key"
				}
			}
			for _, m := range mustDash {
				if m == fd.Name() {
					want = "dash"
				}
			}
			switch want {
			case "key":
				prev, dupl := keys[strings.ToLower(k)]
				switch {
				case !fd.Exported():
					r.Bad("O-4", ck, c.P.Pos(fd.Pos()), "field is unexported: encoding/json neither writes nor reads it, so it is lost on save/load")
				case isDash:
					r.Bad("O-4", ck, c.P.Pos(fd.Pos()), "field is tagged json:\"-\": it is lost on save/load")
				case dupl:
					r.Bad("O-4", ck, c.P.Pos(fd.Pos()), "json key "+k+" collides with field "+prev+": both are dropped by encoding/json")
				default:
					r.OK("O-4", ck, c.P.Pos(fd.Pos()), "persisted under key "+k)
				}
			case "dash":
				r.Check(isDash, "O-4", ck, c.P.Pos(fd.Pos()), "not serialised", "the file path is serialised into the history file and overwrites the configured path on load")
			}
			if !isDash && fd.Exported() {
				keys[strings.ToLower(k)] = fd.Name()
			}
		}
		for _, m := range append(append([]string{}, mustKey...), mustDash...) {
			found := false
			for i := 0; i < st.NumFields(); i++ {
				if st.Field(i).Name() == m {
					found = true
				}
			}
			if !found {
				r.Unknown("O-4", "history."+name+"."+m+"#json", "", "field not found")
			}
		}
	}
	checkStruct("SearchHistory", []string{"Entries", "MaxSize"}, []string{"FilePath"})
	checkStruct("SearchEntry", []string{"Query", "Timestamp", "ResultsCount", "Context", "Duration"}, nil)

	save := c.P.Func("internal/history", "SearchHistory", "Save")
	loadFn := c.P.Func("internal/history", "SearchHistory", "Load")
	if r.Anchor("O-4", "history.(*SearchHistory).Save", save != nil) {
		n := 0
		// in Save itself, or in a method Save calls on the same history
		holders := []*ssa.Function{save}
		ssau.ForEachInstr(save, false, func(in ssa.Instruction) {
			if call, ok := in.(*ssa.Call); ok {
				if g := call.Common().StaticCallee(); g != nil && g.Blocks != nil && g.Signature.Recv() != nil && len(call.Common().Args) > 0 && call.Common().Args[0] == ssa.Value(save.Params[0]) && ssau.NamedOf(g.Params[0].Type()) == histPkg+".SearchHistory" {
					holders = append(holders, g)
				}
			}
		})
		for _, h := range holders {
			for _, call := range callsMatching(h, false, func(s string) bool { return strings.HasPrefix(s, "encoding/json.Marshal") }) {
				n++
				r.Check(ssau.Strip(call.Common().Args[0]) == ssa.Value(h.Params[0]), "O-4", "history.(*SearchHistory).Save#marshals-receiver", c.P.Pos(call.Pos()), "json.Marshal(sh)", "Save marshals something other than the history itself")
			}
		}
		r.Floor("O-4", "marshal calls in Save", n, 1)
		c16SaveWrites(c, save)
	}
	if r.Anchor("O-4", "history.(*SearchHistory).Load", loadFn != nil) {
		n := 0
		for _, call := range callsTo(loadFn, "encoding/json.Unmarshal") {
			n++
			r.Check(ssau.Strip(call.Common().Args[1]) == ssa.Value(loadFn.Params[0]), "O-4", "history.(*SearchHistory).Load#unmarshals-into-receiver", c.P.Pos(call.Pos()), "json.Unmarshal(data, sh)", "Load decodes into something other than the history itself")
			ok, why := failurePropagates(call)
			r.Check(ok, "O-4", "history.(*SearchHistory).Load#decode-error-returned", c.P.Pos(call.Pos()), "a failed decode is returned", why)
		}
		r.Floor("O-4", "unmarshal calls in Load", n, 1)
		for _, call := range callsTo(loadFn, "os.ReadFile") {
			// a missing file is not a failure: the history starts empty
			ok, why := failurePropagatesExcept(call, notExistEdges(call))
			r.Check(ok, "O-4", "history.(*SearchHistory).Load#read-error-returned", c.P.Pos(call.Pos()), "a failed read (other than: no file yet) is returned", why)
		}
	}
}

func c16Views(c *Ctx, sx *symx.Ctx) {
	r := c.R
	// once-per-entry counting in GetTopQueries / getUniqueQueries
	// the function that builds the distinct-query table: the one whose size
	// (or whose counted result) GetStats reports as UniqueQueries
	uniqueFn := "GetStats"
	if h := c16UniqueBuilder(c); h != nil {
		uniqueFn = h.Name()
	}
	for _, spec := range []struct{ meth, what string }{{"GetTopQueries", "frequency"}, {uniqueFn, "unique"}} {
		fn := c.P.Func("internal/history", "SearchHistory", spec.meth)
		fk := "history.(*SearchHistory)." + spec.meth
		if !r.Anchor("O-5", fk, fn != nil) {
			continue
		}
		var loop *ssau.RangeLoop
		for _, l := range ssau.RangeLoops(fn) {
			l := l
			if l.Over == nil {
				continue
			}
			if _, ok := histFieldLoad(l.Over, "Entries"); ok && !l.IsMap {
				loop = &l
				break
			}
		}
		if loop == nil {
			// the tally is built by a method of the history called on the same receiver
			ssau.ForEachInstr(fn, false, func(in ssa.Instruction) {
				call, ok := in.(*ssa.Call)
				if !ok || loop != nil {
					return
				}
				g := call.Common().StaticCallee()
				if g == nil || g.Blocks == nil || g.Signature.Recv() == nil || ssau.NamedOf(g.Signature.Recv().Type()) != histType || len(call.Common().Args) == 0 || call.Common().Args[0] != ssa.Value(fn.Params[0]) {
					return
				}
				for _, l := range ssau.RangeLoops(g) {
					l := l
					if l.Over == nil || l.IsMap {
						continue
					}
					if _, ok := histFieldLoad(l.Over, "Entries"); ok {
						loop, fn = &l, g
						return
					}
				}
			})
		}
		if loop == nil {
			r.Bad("O-5", fk+"#range-entries", c.P.Pos(fn.Pos()), "no range loop over Entries found")
			continue
		}
		// the counting map update keyed by the element's Query
		isCount := func(in ssa.Instruction) bool {
			if st, isSt := in.(*ssa.Store); isSt {
				return c16PointerTally(st)
			}
			mu, ok := in.(*ssa.MapUpdate)
			if !ok {
				return false
			}
			// key is a load of <elem>.Query
			u, ok := mu.Key.(*ssa.UnOp)
			if !ok {
				return false
			}
			fa, ok := u.X.(*ssa.FieldAddr)
			if !ok || ssau.FieldName(fa) != "Query" {
				return false
			}
			mt, ok := mu.Map.Type().Underlying().(*types.Map)
			if !ok {
				return false
			}
			switch b := mt.Elem().Underlying().(type) {
			case *types.Basic:
				if b.Info()&types.IsInteger != 0 {
					// value must be m[key]+1
					bo, ok := mu.Value.(*ssa.BinOp)
					if !ok || bo.Op != token.ADD {
						return false
					}
					one, ok := ssau.ConstInt(bo.Y)
					lk, ok2 := bo.X.(*ssa.Lookup)
					return ok && one == 1 && ok2 && lk.X == mu.Map
				}
				if b.Kind() == types.Bool {
					return ssau.IsConstBool(mu.Value, true)
				}
			case *types.Struct:
				if b.NumFields() == 0 {
					return true // a set: m[q] = struct{}{}
				}
				// a record per query: u := m[q]; u.count++; ...; m[q] = u
				ld, ok := mu.Value.(*ssa.UnOp)
				if !ok || ld.Op != token.MUL {
					return false
				}
				cell, ok := ld.X.(*ssa.Alloc)
				if !ok {
					return false
				}
				fromMap, incs := false, 0
				for _, ref := range *cell.Referrers() {
					switch x := ref.(type) {
					case *ssa.Store:
						if x.Addr == ssa.Value(cell) {
							lk, ok := x.Val.(*ssa.Lookup)
							if !ok || lk.X != mu.Map || lk.Index != mu.Key && sx.Of(fn).E(lk.Index) != sx.Of(fn).E(mu.Key) {
								return false
							}
							fromMap = true
						}
					case *ssa.FieldAddr:
						for _, r2 := range *x.Referrers() {
							st, ok := r2.(*ssa.Store)
							if !ok || st.Addr != ssa.Value(x) {
								continue
							}
							if bt, ok := x.Type().Underlying().(*types.Pointer).Elem().Underlying().(*types.Basic); !ok || bt.Info()&types.IsInteger == 0 {
								continue
							}
							// the counter field: old value + 1, on every path to the write-back
							bo, ok := st.Val.(*ssa.BinOp)
							if !ok || bo.Op != token.ADD {
								return false
							}
							one, isOne := ssau.ConstInt(bo.Y)
							old, isLd := bo.X.(*ssa.UnOp)
							if !isOne || one != 1 || !isLd {
								return false
							}
							if ofa, ok := old.X.(*ssa.FieldAddr); !ok || ofa.X != ssa.Value(cell) || ofa.Field != x.Field {
								return false
							}
							if !(st.Block() == mu.Block() || st.Block().Dominates(mu.Block())) {
								return false
							}
							incs++
						}
					}
				}
				return fromMap && incs == 1
			}
			return false
		}
		eng := pathev.New(func(in ssa.Instruction) []string {
			if isCount(in) {
				return []string{"count"}
			}
			return nil
		}, nil)
		m, _, ok := eng.Between(loop.Body, loop.Header)
		if !ok {
			r.Unknown("O-5", fk+"#counts-each-entry-once", c.P.Pos(fn.Pos()), "loop body never returns to its header")
			continue
		}
		r.Check(m.Get("count").ExactlyOnce(), "O-5", fk+"#counts-each-entry-once", c.P.Pos(loop.Body.Instrs[0].Pos()), "each iteration over Entries updates the "+spec.what+" table exactly once, keyed by the entry's Query", "per iteration the "+spec.what+" table is updated "+m.Get("count").String()+" times (want exactly once): frequencies no longer sum to the entry count")
	}
	// TotalSearches = len(Entries)
	if fn := c.P.Func("internal/history", "SearchHistory", "GetStats"); r.Anchor("O-5", "history.(*SearchHistory).GetStats", fn != nil) {
		n := 0
		ssau.ForEachInstr(fn, false, func(in ssa.Instruction) {
			st, ok := in.(*ssa.Store)
			if !ok {
				return
			}
			fa, ok := st.Addr.(*ssa.FieldAddr)
			if !ok || ssau.NamedOf(fa.X.Type()) != histPkg+".Stats" {
				return
			}
			switch ssau.FieldName(fa) {
			case "TotalSearches":
				n++
				_, ok := lenOfEntries(st.Val)
				r.Check(ok, "O-5", "history.(*SearchHistory).GetStats#total-is-len-entries", c.P.Pos(st.Pos()), "TotalSearches = len(Entries)", "TotalSearches is not len(Entries)")
			case "UniqueQueries":
				n++
				ok := false
				if h := c16UniqueBuilder(c); h != nil && h != fn {
					ok = true // its table is keyed by each entry's Query (checked above)
				}
				if call, isCall := st.Val.(*ssa.Call); isCall && ssau.CallName(call) == "builtin.len" {
					// or the size of a set built here, keyed by each entry's Query
					// (its once-per-entry update is checked above)
					if mk, isMk := call.Common().Args[0].(*ssa.MakeMap); isMk {
						for _, ref := range *mk.Referrers() {
							if mu, isMu := ref.(*ssa.MapUpdate); isMu && mu.Map == ssa.Value(mk) {
								if u, isU := mu.Key.(*ssa.UnOp); isU {
									if fa, isFA := u.X.(*ssa.FieldAddr); isFA && ssau.FieldName(fa) == "Query" {
										ok = true
									}
								}
							}
						}
					}
				}
				r.Check(ok, "O-5", "history.(*SearchHistory).GetStats#unique-is-len-unique", c.P.Pos(st.Pos()), "UniqueQueries = len(getUniqueQueries())", "UniqueQueries is not the size of the unique-query table")
			}
		})
		r.Floor("O-5", "statistics fields checked", n, 2)
	}
	// GetRecentQueries
	if fn := c.P.Func("internal/history", "SearchHistory", "GetRecentQueries"); r.Anchor("O-5", "history.(*SearchHistory).GetRecentQueries", fn != nil) {
		f := sx.Of(fn)
		fk := "history.(*SearchHistory).GetRecentQueries"
		// index phi: (len(Entries)-1, i-1)
		// the walking variable runs from len(Entries)-1 (element index) or from
		// len(Entries) (one past it: the element read is Entries[i-1]) down by one
		var idx *ssa.Phi
		off := int64(0) // element index = idx - off
		ssau.ForEachInstr(fn, false, func(in ssa.Instruction) {
			phi, ok := in.(*ssa.Phi)
			if !ok || len(phi.Edges) < 2 {
				return
			}
			init, step, other := 0, 0, 0
			o := int64(0)
			for _, e := range phi.Edges {
				if _, ok := lenOfEntries(e); ok {
					init++
					o = 1
					continue
				}
				bo, ok := e.(*ssa.BinOp)
				if !ok || bo.Op != token.SUB {
					other++
					continue
				}
				one, ok := ssau.ConstInt(bo.Y)
				if !ok || one != 1 {
					other++
					continue
				}
				if _, ok := lenOfEntries(bo.X); ok {
					init++
					o = 0
				} else if bo.X == ssa.Value(phi) {
					step++
				} else {
					other++
				}
			}
			if init == 1 && step >= 1 && other == 0 {
				idx, off = phi, o
			}
		})
		isElemIndex := func(v ssa.Value) bool {
			if off == 0 {
				return v == ssa.Value(idx)
			}
			bo, ok := v.(*ssa.BinOp)
			if !ok || bo.Op != token.SUB || bo.X != ssa.Value(idx) {
				return false
			}
			k, ok := ssau.ConstInt(bo.Y)
			return ok && k == off
		}
		if idx == nil && c16RecentBackward(c, sx, fn, fk) {
			return
		}
		if !r.Check(idx != nil, "O-5", fk+"#newest-first-walk", c.P.Pos(fn.Pos()), "index runs from len(Entries)-1 downwards by one", "no loop index of the form i := len(Entries)-1; ...; i-- found: recent queries are not walked newest first") {
			return
		}
		// appends of Entries[idx].Query guarded by !seen[query]
		nApp := 0
		cd := ssau.ControlDeps(fn)
		ssau.ForEachInstr(fn, false, func(in ssa.Instruction) {
			call, ok := in.(*ssa.Call)
			if !ok || ssau.CallName(call) != "builtin.append" {
				return
			}
			if _, isStr := call.Type().Underlying().(*types.Slice); !isStr {
				return
			}
			nApp++
			key := fmt.Sprintf("%s#append-%d", fk, nApp)
			// appended value: Entries[idx].Query
			val := appendedSingle(call)
			good := false
			var qv ssa.Value
			if u, ok := val.(*ssa.UnOp); ok {
				if fa, ok := u.X.(*ssa.FieldAddr); ok && ssau.FieldName(fa) == "Query" {
					if ia, ok := fa.X.(*ssa.IndexAddr); ok && isElemIndex(ia.Index) {
						if _, ok := histFieldLoad(ia.X, "Entries"); ok {
							good, qv = true, val
						}
					}
				}
			}
			if !good {
				r.Bad("O-5", key, c.P.Pos(call.Pos()), "the appended value is not Entries[i].Query for the walking index: "+f.Plain(val))
				return
			}
			// guarded by seen[query] == false
			guarded := absentGuarded(cd, call.Block(), func(v ssa.Value) bool { return f.E(v) == f.E(qv) })
			r.Check(guarded, "O-5", key, c.P.Pos(call.Pos()), "appends Entries[i].Query only when not yet seen", "a query is appended without the `seen` test: recent queries are no longer distinct")
		})
		r.Floor("O-5", "appends in GetRecentQueries", nApp, 1)
		// the walk ends only when the log is exhausted (i < 0) or `limit`
		// distinct queries were collected
		inLoop := func(b *ssa.BasicBlock) bool {
			return b == idx.Block() || (ssau.Reachable(idx.Block(), b, nil) && ssau.Reachable(b, idx.Block(), nil))
		}
		nExit := 0
		for _, b := range fn.Blocks {
			if !inLoop(b) {
				continue
			}
			for k, sc := range b.Succs {
				if inLoop(sc) {
					continue
				}
				nExit++
				key := fmt.Sprintf("%s#walk-exit-%d", fk, nExit)
				iff, ok := b.Instrs[len(b.Instrs)-1].(*ssa.If)
				if !ok {
					r.Bad("O-5", key, c.P.Pos(b.Instrs[len(b.Instrs)-1].Pos()), "the walk is left unconditionally")
					continue
				}
				op, x, y, okc := ssau.CondOf(iff.Cond)
				good := false
				if okc {
					if k == 0 {
						op = ssau.Negate(op) // condition under which the loop continues, normalised to the false edge
					}
					// now: loop exits when (x op y) is FALSE
					// (a) i >= 0 / i > -1 / 0 <= i
					// the element index idx-off stays >= 0
					if x == ssa.Value(idx) {
						if cst, isC := ssau.ConstInt(y); isC && ((op == token.GEQ && cst == off) || (op == token.GTR && cst == off-1)) {
							good = true
						}
					} else if y == ssa.Value(idx) {
						if cst, isC := ssau.ConstInt(x); isC && ((op == token.LEQ && cst == off) || (op == token.LSS && cst == off-1)) {
							good = true
						}
					}
					// (b) len(queries) < limit
					if yc, isCall := y.(*ssa.Call); isCall && ssau.CallName(yc) == "builtin.len" && op == token.GTR {
						x, y, op = y, x, token.LSS
					}
					if call, isCall := x.(*ssa.Call); isCall && ssau.CallName(call) == "builtin.len" && op == token.LSS {
						if _, isStrs := call.Common().Args[0].Type().Underlying().(*types.Slice); isStrs {
							lim := f.Plain(y)
							if y == ssa.Value(fn.Params[1]) || strings.Contains(lim, "phi:") && strings.Contains(lim, fn.Params[1].Name()) || c16DefaultedParam(c, y, fn.Params[1], 0) {
								good = true
							}
						}
					}
				}
				r.Check(good, "O-5", key, c.P.Pos(iff.Cond.Pos()), "the walk stops only when the log is exhausted or `limit` distinct queries were collected", "the walk over Entries can stop for another reason ("+f.Plain(iff.Cond)+"): fewer than `limit` distinct recent queries are returned although older entries hold more")
			}
		}
		r.Floor("O-5", "exits of the recent-queries walk", nExit, 1)
	}
}

// appendedSingle returns the single element of append(x, elem) or nil.
func appendedSingle(call *ssa.Call) ssa.Value {
	if len(call.Common().Args) < 2 {
		return nil
	}
	sl, ok := call.Common().Args[1].(*ssa.Slice)
	if !ok {
		return nil
	}
	al, ok := sl.X.(*ssa.Alloc)
	if !ok {
		return nil
	}
	var val ssa.Value
	n := 0
	for _, ref := range *al.Referrers() {
		if ia, ok := ref.(*ssa.IndexAddr); ok {
			for _, r2 := range *ia.Referrers() {
				if st, ok := r2.(*ssa.Store); ok {
					n++
					val = st.Val
				}
			}
		}
	}
	if n != 1 {
		return nil
	}
	return val
}

// linExpr is an integer expression as a linear combination of opaque atoms
// (canonical renderings of non-arithmetic values) plus a constant.
type linExpr struct {
	terms map[string]int64
	vals  map[string]ssa.Value
	k     int64
	ok    bool
}

// linOf normalises v through +, - and constants; locals defined by a single
// expression are the expression (excess := len(x) - max).
func linOf(f *symx.Fn, v ssa.Value, d int) linExpr {
	out := linExpr{terms: map[string]int64{}, vals: map[string]ssa.Value{}, ok: true}
	if d > 8 {
		return linExpr{}
	}
	if c, ok := ssau.ConstInt(v); ok {
		out.k = c
		return out
	}
	if bo, ok := v.(*ssa.BinOp); ok && (bo.Op == token.ADD || bo.Op == token.SUB) {
		a, b := linOf(f, bo.X, d+1), linOf(f, bo.Y, d+1)
		if !a.ok || !b.ok {
			return linExpr{}
		}
		if bo.Op == token.SUB {
			return linSub(a, b)
		}
		for t, cf := range b.terms {
			a.terms[t] += cf
			a.vals[t] = b.vals[t]
		}
		a.k += b.k
		return clean(a)
	}
	out.terms[f.E(v)] = 1
	out.vals[f.E(v)] = v
	return out
}

func linSub(a, b linExpr) linExpr {
	if !a.ok || !b.ok {
		return linExpr{}
	}
	out := linExpr{terms: map[string]int64{}, vals: map[string]ssa.Value{}, ok: true, k: a.k - b.k}
	for t, cf := range a.terms {
		out.terms[t] += cf
		out.vals[t] = a.vals[t]
	}
	for t, cf := range b.terms {
		out.terms[t] -= cf
		out.vals[t] = b.vals[t]
	}
	return clean(out)
}

func clean(a linExpr) linExpr {
	for t, cf := range a.terms {
		if cf == 0 {
			delete(a.terms, t)
			delete(a.vals, t)
		}
	}
	return a
}

// c16AddEntryValueForm decides O-1/O-2/O-3 of AddEntry when the updated list
// is computed in local variables: every value stored into Entries is the one
// append(<Entries as loaded>, entry), possibly cut to its suffix
// list[len(list)-m:] on the side of a test that is true exactly when
// len(list)-m > 0, with m >= 0 there. Returns false when the stores do not
// have that shape (the caller then reports them).
func c16AddEntryValueForm(c *Ctx, f *symx.Fn, fn *ssa.Function, fk string, stores []*ssa.Store, recordsArgs func(*ssa.Call) (bool, string), collapse func(string, *ssa.BasicBlock, token.Pos)) bool {
	r := c.R
	var app *ssa.Call
	type cut struct {
		sl   *ssa.Slice
		edge [2]*ssa.BasicBlock // pred -> block of the merge it flows into (nil: stored directly)
	}
	var cuts []cut
	type plain struct{ pred, blk *ssa.BasicBlock }
	var uncut []plain
	shapeOK := true
	seen := map[ssa.Value]bool{}
	var derive func(v ssa.Value, pred, blk *ssa.BasicBlock)
	derive = func(v ssa.Value, pred, blk *ssa.BasicBlock) {
		switch x := v.(type) {
		case *ssa.Call:
			if ssau.CallName(x) != "builtin.append" {
				shapeOK = false
				return
			}
			if _, ok := histFieldLoad(x.Common().Args[0], "Entries"); !ok || (app != nil && app != x) {
				shapeOK = false
				return
			}
			app = x
			uncut = append(uncut, plain{pred, blk})
		case *ssa.Slice:
			inner, ok := x.X.(*ssa.Call)
			if !ok || ssau.CallName(inner) != "builtin.append" || (app != nil && app != inner) {
				shapeOK = false
				return
			}
			if _, ok := histFieldLoad(inner.Common().Args[0], "Entries"); !ok {
				shapeOK = false
				return
			}
			app = inner
			cuts = append(cuts, cut{x, [2]*ssa.BasicBlock{pred, blk}})
		case *ssa.Phi:
			if seen[x] {
				return
			}
			seen[x] = true
			for k, e := range x.Edges {
				derive(e, x.Block().Preds[k], x.Block())
			}
		default:
			shapeOK = false
		}
	}
	for _, st := range stores {
		derive(st.Val, nil, st.Block())
	}
	if !shapeOK || app == nil {
		return false
	}
	key := fk + "#append-1"
	elemOK, why := recordsArgs(app)
	r.Check(elemOK, "O-3", key+":records-arguments", c.P.Pos(app.Pos()), "append(Entries, entry) with entry.Query = query, entry.ResultsCount = resultsCount", why)
	r.Floor("O-1", "append sites in AddEntry", 1, 1)

	// the size test: true exactly when len(list) - m > 0
	lenOfList := func(v ssa.Value) bool {
		lc, ok := v.(*ssa.Call)
		return ok && ssau.CallName(lc) == "builtin.len" && lc.Common().Args[0] == ssa.Value(app)
	}
	excess := func(v ssa.Value) (m ssa.Value, ok bool) {
		d := linOf(f, v, 0)
		if !d.ok || d.k != 0 || len(d.terms) != 2 {
			return nil, false
		}
		haveLen := false
		for a, cf := range d.terms {
			t := d.vals[a]
			switch {
			case cf == 1 && lenOfList(t):
				haveLen = true
			case cf == -1:
				m = t
			default:
				return nil, false
			}
		}
		return m, haveLen && m != nil
	}
	var trimIf *ssa.If
	var mVal ssa.Value
	for _, iff := range ssau.Ifs(fn) {
		op, x, y, ok := ssau.CondOf(iff.Cond)
		if !ok {
			continue
		}
		if op == token.LSS || op == token.LEQ {
			x, y, op = y, x, ssau.Flip(op)
		}
		if op != token.GTR && op != token.GEQ {
			continue
		}
		d := linSub(linOf(f, x, 0), linOf(f, y, 0))
		if !d.ok {
			continue
		}
		if op == token.GEQ {
			d.k++
		}
		if d.k != 0 || len(d.terms) != 2 {
			continue
		}
		var m ssa.Value
		haveLen, good := false, true
		for a, cf := range d.terms {
			t := d.vals[a]
			switch {
			case cf == 1 && lenOfList(t):
				haveLen = true
			case cf == -1:
				m = t
			default:
				good = false
			}
		}
		if good && haveLen && m != nil {
			trimIf, mVal = iff, m
		}
	}
	if trimIf == nil {
		r.Bad("O-1", key+":trim-test", c.P.Pos(app.Pos()), "no test `len(list) > max` on the list just appended to: the history can grow beyond its maximum")
		return true
	}
	// the untrimmed list is stored only from the false side of the test, the cut one only from the true side
	tEdge := map[[2]int]bool{{trimIf.Block().Index, 0}: true}
	fEdge := map[[2]int]bool{{trimIf.Block().Index, 1}: true}
	viaOnly := func(pred, blk *ssa.BasicBlock, edge map[[2]int]bool, succIdx int) bool {
		if pred == nil {
			return !ssau.ReachableAvoidingEdges(fn, blk, edge)
		}
		if pred == trimIf.Block() {
			return pred.Succs[succIdx] == blk && pred.Succs[1-succIdx] != blk
		}
		return !ssau.ReachableAvoidingEdges(fn, pred, edge)
	}
	onAll := true
	for _, u := range uncut {
		if !viaOnly(u.pred, u.blk, fEdge, 1) {
			onAll = false
		}
	}
	r.Check(onAll, "O-1", key+":trim-test", c.P.Pos(trimIf.Pos()), "the list is stored uncut only when len(list) > max is false", "some path stores the appended list without having passed the size test: the history can grow beyond its maximum")
	if len(cuts) == 0 {
		r.Bad("O-1", key+":trim-keeps-newest", c.P.Pos(trimIf.Pos()), "the true side of the size test does not store a reslice of the list")
	}
	for _, ct := range cuts {
		sl := ct.sl
		shape := ""
		switch {
		case sl.High != nil || sl.Max != nil:
			shape = "the reslice has an upper bound (" + f.Plain(sl) + "): a prefix keeps the OLDEST entries and drops the newest"
		case sl.Low == nil:
			shape = "the reslice has no lower bound: nothing is trimmed"
		default:
			m, ok := excess(sl.Low)
			if !ok || f.E(m) != f.E(mVal) {
				shape = "the lower bound is " + f.Plain(sl.Low) + ", want len(list)-max on the same values as the test"
			}
		}
		if shape == "" && !viaOnly(ct.edge[0], ct.edge[1], tEdge, 0) && ssau.ReachableAvoidingEdges(fn, sl.Block(), tEdge) {
			shape = "the cut is made on a path where the size test was not true"
		}
		r.Check(shape == "", "O-1", key+":trim-keeps-newest", c.P.Pos(sl.Pos()), "list = list[len(list)-max:] under len(list) > max", shape)
		// O-2: max >= 0 where it is used as a bound
		iv := interval.New(f).At(mVal, sl.Block())
		ok2 := iv.LoOK && iv.Lo >= 0
		if !ok2 && c16MaxSizeInvariant(c) {
			ok2 = true
		}
		r.Check(ok2, "O-2", fk+"#trim-bound-validated", c.P.Pos(sl.Pos()), fmt.Sprintf("max >= %d established on every path to the reslice", iv.Lo), "no guard or default establishes max >= 0 on every path to the reslice: a negative max_size decoded from the history file makes list[len-max:] panic on every later search")
	}
	collapse(key, app.Block(), app.Pos())
	return true
}

// c16TrimChecks: the size test and the trim that follow an append of fn whose
// store created version vA of Entries (apBlock: where that version starts).
// false when fn has no size test on that version at all.
func c16TrimChecks(c *Ctx, f *symx.Fn, fn *ssa.Function, fk, key string, pd *ssau.PostDom, trims []*ssa.Store, apBlock *ssa.BasicBlock, apPos token.Pos, vA string, usedTrim map[*ssa.Store]bool) bool {
	r := c.R
	var trimIf *ssa.If
	var mLoad *ssa.UnOp
	for _, iff := range ssau.Ifs(fn) {
		op, x, y, ok := ssau.CondOf(iff.Cond)
		if !ok {
			continue
		}
		if op == token.LSS || op == token.LEQ {
			x, y, op = y, x, ssau.Flip(op)
		}
		if op != token.GTR && op != token.GEQ {
			continue
		}
		d := linSub(linOf(f, x, 0), linOf(f, y, 0))
		if !d.ok {
			continue
		}
		if op == token.GEQ {
			d.k++ // x >= y  <=>  x - y + 1 > 0
		}
		// d > 0 must read: len(Entries@vA) - MaxSize > 0
		var le, ml *ssa.UnOp
		good := d.k == 0 && len(d.terms) == 2
		for a, cf := range d.terms {
			v := d.vals[a]
			if lc, isLen := v.(*ssa.Call); isLen && cf == 1 {
				if l, ok := lenOfEntries(lc); ok && f.Version(l) == vA {
					le = l
					continue
				}
			}
			if m, ok := histFieldLoad(v, "MaxSize"); ok && cf == -1 {
				ml = m
				continue
			}
			good = false
		}
		if good && le != nil && ml != nil {
			trimIf, mLoad = iff, ml
		}
	}
	if trimIf == nil {
		return false
	}
	onAll := trimIf.Block() == apBlock || pd.PostDominates(trimIf.Block(), apBlock)
	r.Check(onAll, "O-1", key+":trim-test", c.P.Pos(trimIf.Pos()), "every path from the append passes the test len(Entries) > MaxSize", "some path from the append to the exit skips the size test")
	// trim store in the true branch
	succ := trimIf.Block().Succs[0]
	var trim *ssa.Store
	for _, t := range trims {
		if t.Block() == succ || (pd.PostDominates(t.Block(), succ) && succ.Dominates(t.Block())) {
			trim = t
		}
	}
	if trim == nil {
		r.Bad("O-1", key+":trim-keeps-newest", c.P.Pos(trimIf.Pos()), "the true branch of the size test does not store a reslice of Entries back")
		return true
	}
	usedTrim[trim] = true
	sl := trim.Val.(*ssa.Slice)
	xl, _ := histFieldLoad(sl.X, "Entries")
	shape := ""
	// the survivors may be moved to the front first:
	//   kept := copy(Entries, Entries[len-Max:]); Entries = Entries[:kept]
	// the prefix then holds exactly the suffix that the plain form keeps
	shifted := false
	if sl.Low == nil && sl.Max == nil && sl.High != nil {
		if cp, ok := sl.High.(*ssa.Call); ok && ssau.CallName(cp) == "builtin.copy" {
			dst, src := cp.Common().Args[0], cp.Common().Args[1]
			if _, ok := histFieldLoad(dst, "Entries"); ok {
				if ss, ok := src.(*ssa.Slice); ok && ss.High == nil && ss.Max == nil && ss.Low != nil {
					if sx0, ok := histFieldLoad(ss.X, "Entries"); ok && f.Version(sx0) == vA {
						d := linOf(f, ss.Low, 0)
						good := d.ok && d.k == 0 && len(d.terms) == 2
						for a, cf := range d.terms {
							v := d.vals[a]
							if lc, isLen := v.(*ssa.Call); isLen && cf == 1 {
								if l, ok := lenOfEntries(lc); ok && f.Version(l) == vA {
									continue
								}
							}
							if _, ok := histFieldLoad(v, "MaxSize"); ok && cf == -1 && f.E(v) == f.E(mLoad) {
								continue
							}
							good = false
						}
						shifted = good
					}
				}
			}
		}
	}
	switch {
	case shifted:
	case sl.High != nil || sl.Max != nil:
		shape = "the reslice has an upper bound (" + f.Plain(sl) + "): a prefix keeps the OLDEST entries and drops the newest"
	case sl.Low == nil:
		shape = "the reslice has no lower bound: nothing is trimmed"
	case f.Version(xl) != vA:
		shape = "the resliced value is not the slice that was just appended to"
	default:
		// the lower bound equals len(Entries) - MaxSize on the same values as the test
		d := linOf(f, sl.Low, 0)
		good := d.ok && d.k == 0 && len(d.terms) == 2
		for a, cf := range d.terms {
			v := d.vals[a]
			if lc, isLen := v.(*ssa.Call); isLen && cf == 1 {
				if l, ok := lenOfEntries(lc); ok && f.Version(l) == vA {
					continue
				}
			}
			if _, ok := histFieldLoad(v, "MaxSize"); ok && cf == -1 && f.E(v) == f.E(mLoad) {
				continue
			}
			good = false
		}
		if !good {
			shape = "the lower bound is " + f.Plain(sl.Low) + ", want len(Entries)-MaxSize on the same values as the test"
		}
	}
	r.Check(shape == "", "O-1", key+":trim-keeps-newest", c.P.Pos(trim.Pos()), "Entries = Entries[len(Entries)-MaxSize:] under len(Entries) > MaxSize", shape)

	// O-2: MaxSize >= 0 at the trim
	if sl.Low != nil {
		if mLoad != nil {
			q := interval.New(f).WithCallees(symx.New(c.P.IsRepoFunc), c.P.IsRepoFunc)
			iv := q.At(mLoad, trim.Block())
			ok2 := iv.LoOK && iv.Lo >= 0
			detail := "no guard or default establishes MaxSize >= 0 on every path to the reslice: a negative max_size decoded from the history file makes Entries[len-MaxSize:] panic on every later search"
			if ok2 {
				detail = ""
			}
			if !ok2 && c16MaxSizeInvariant(c) {
				ok2 = true
			}
			r.Check(ok2, "O-2", fk+"#trim-bound-validated", c.P.Pos(trim.Pos()), fmt.Sprintf("MaxSize >= %d established on every path to the reslice", iv.Lo), detail)
		}
	}

	return true
}

// c16TrimStep: after the append store ap of fn, every path to the exit calls
// one method of the same history whose own body makes the size test and the
// trim on the list it finds (no other store to Entries in it), and nothing
// stores to Entries in between.
func c16TrimStep(c *Ctx, sx *symx.Ctx, fn *ssa.Function, fk, key string, pd *ssau.PostDom, ap *ssa.Store) bool {
	var step *ssa.Call
	ssau.ForEachInstr(fn, false, func(in ssa.Instruction) {
		call, ok := in.(*ssa.Call)
		if !ok || step != nil {
			return
		}
		g := call.Common().StaticCallee()
		if g == nil || g.Blocks == nil || g.Signature.Recv() == nil || ssau.NamedOf(g.Signature.Recv().Type()) != histType || len(call.Common().Args) == 0 {
			return
		}
		if a0 := call.Common().Args[0]; a0 != ssa.Value(fn.Params[0]) && ssau.ParamOf(a0) != fn.Params[0] {
			return
		}
		// after the append on every path
		after := false
		if call.Block() == ap.Block() {
			after = ssau.InstrIndex(call) > ssau.InstrIndex(ap)
		} else {
			after = pd.PostDominates(call.Block(), ap.Block())
		}
		if !after {
			return
		}
		// the step stores to Entries only by reslicing
		var trims []*ssa.Store
		clean := true
		ssau.ForEachInstr(g, true, func(i2 ssa.Instruction) {
			st, ok := i2.(*ssa.Store)
			if !ok {
				return
			}
			if _, ok := ssau.IsFieldAddr(st.Addr, histType, "Entries"); !ok {
				return
			}
			if sl, ok := st.Val.(*ssa.Slice); ok {
				if _, ok := histFieldLoad(sl.X, "Entries"); ok {
					trims = append(trims, st)
					return
				}
			}
			clean = false
		})
		if !clean || len(trims) == 0 {
			return
		}
		step = call
		gf := sx.Of(g)
		// the version of Entries the step finds
		vA := ""
		ssau.ForEachInstr(g, false, func(i2 ssa.Instruction) {
			if u, ok := i2.(*ssa.UnOp); ok && vA == "" {
				if l, ok := histFieldLoad(u, "Entries"); ok && l == u {
					vA = gf.Version(u)
				}
			}
		})
		used := map[*ssa.Store]bool{}
		if !c16TrimChecks(c, gf, g, fk, key, ssau.NewPostDom(g), trims, g.Blocks[0], call.Pos(), vA, used) {
			step = nil
			return
		}
		for i, t := range trims {
			if !used[t] {
				c.R.Bad("O-1", fmt.Sprintf("%s#stray-reslice-%d", load.FuncKey(g), i+1), c.P.Pos(t.Pos()), "Entries is resliced outside the size test: "+gf.Plain(t.Val))
			}
		}
	})
	return step != nil
}

// c16LastEntryAccessor: call is h(sh) on fn's own receiver, h a method of the
// history whose every return is nil or &Entries[len(Entries)-1], the latter
// only where len(Entries) - 1 >= 0 is established.
func c16LastEntryAccessor(c *Ctx, sx *symx.Ctx, call *ssa.Call, fn *ssa.Function) bool {
	h := call.Common().StaticCallee()
	if h == nil || h.Blocks == nil || h.Signature.Recv() == nil || ssau.NamedOf(h.Signature.Recv().Type()) != histType || len(call.Common().Args) != 1 {
		return false
	}
	if a0 := call.Common().Args[0]; a0 != ssa.Value(fn.Params[0]) && ssau.ParamOf(a0) != fn.Params[0] {
		return false
	}
	hf := sx.Of(h)
	n := 0
	for _, ret := range ssau.ReturnsOf(h) {
		v := ssau.ResultValue(ret, 0)
		if ssau.IsNilConst(v) {
			continue
		}
		ia, ok := v.(*ssa.IndexAddr)
		if !ok {
			return false
		}
		el, ok := histFieldLoad(ia.X, "Entries")
		if !ok || hf.E(ia.Index) != "(len("+hf.E(el)+") - 1)" {
			return false
		}
		if iv := interval.New(hf).At(ia.Index, ret.Block()); !(iv.LoOK && iv.Lo >= 0) {
			return false
		}
		n++
	}
	// the accessor changes nothing
	pure := true
	ssau.ForEachInstr(h, true, func(in ssa.Instruction) {
		switch in.(type) {
		case *ssa.Store, *ssa.MapUpdate:
			pure = false
		}
	})
	return n > 0 && pure
}

// c16DefaultedParam: v is parameter p, possibly replaced by a constant on
// some paths (a default): p itself, a merge of p and constants, or the result
// of a repository helper that returns one of its arguments, those being p
// and constants.
func c16DefaultedParam(c *Ctx, v ssa.Value, p *ssa.Parameter, d int) bool {
	if d > 4 {
		return false
	}
	switch x := v.(type) {
	case *ssa.Parameter:
		return x == p
	case *ssa.Phi:
		some := false
		for _, e := range x.Edges {
			if _, isC := e.(*ssa.Const); isC {
				continue
			}
			if !c16DefaultedParam(c, e, p, d+1) {
				return false
			}
			some = true
		}
		return some
	case *ssa.Call:
		g := x.Common().StaticCallee()
		if g == nil || g.Blocks == nil || !c.P.IsRepoFunc(g) || g.Signature.Results().Len() != 1 {
			return false
		}
		some := false
		for _, ret := range ssau.ReturnsOf(g) {
			rv := ssau.ResultValue(ret, 0)
			if _, isC := rv.(*ssa.Const); isC {
				continue
			}
			gp, ok := rv.(*ssa.Parameter)
			if !ok {
				return false
			}
			i := paramIdx(g, gp)
			if i < 0 || i >= len(x.Common().Args) {
				return false
			}
			a := x.Common().Args[i]
			if _, isC := a.(*ssa.Const); isC {
				continue
			}
			if !c16DefaultedParam(c, a, p, d+1) {
				return false
			}
			some = true
		}
		return some
	}
	return false
}

// c16QueryKeyedSet: v is a map made in its function whose every update is
// keyed by the Query field of a history entry.
func c16QueryKeyedSet(v ssa.Value) bool {
	mk, ok := v.(*ssa.MakeMap)
	if !ok {
		return false
	}
	n := 0
	for _, ref := range *mk.Referrers() {
		if mu, isMu := ref.(*ssa.MapUpdate); isMu && mu.Map == ssa.Value(mk) {
			u, isU := mu.Key.(*ssa.UnOp)
			if !isU {
				return false
			}
			fa, isFA := u.X.(*ssa.FieldAddr)
			if !isFA || ssau.FieldName(fa) != "Query" {
				return false
			}
			n++
		}
	}
	return n > 0
}

// c16UniqueBuilder: the method of the history that builds the set of
// distinct queries whose size GetStats stores into Stats.UniqueQueries —
// reported as len(h()) with h returning the set, or as h() with h returning
// the set's len — or GetStats itself when the set is built there. nil when
// the stored value has none of these forms.
func c16UniqueBuilder(c *Ctx) *ssa.Function {
	stats := c.P.Func("internal/history", "SearchHistory", "GetStats")
	if stats == nil {
		return nil
	}
	var out *ssa.Function
	ssau.ForEachInstr(stats, false, func(in ssa.Instruction) {
		st, ok := in.(*ssa.Store)
		if !ok {
			return
		}
		fa, ok := st.Addr.(*ssa.FieldAddr)
		if !ok || ssau.NamedOf(fa.X.Type()) != histPkg+".Stats" || ssau.FieldName(fa) != "UniqueQueries" {
			return
		}
		isHist := func(g *ssa.Function) bool {
			return g != nil && g.Blocks != nil && g.Signature.Recv() != nil && ssau.NamedOf(g.Signature.Recv().Type()) == histType
		}
		lenOf := func(v ssa.Value) ssa.Value {
			if call, ok := v.(*ssa.Call); ok && ssau.CallName(call) == "builtin.len" {
				return call.Common().Args[0]
			}
			return nil
		}
		if arg := lenOf(st.Val); arg != nil {
			if c16QueryKeyedSet(arg) {
				out = stats
				return
			}
			if inner, ok := arg.(*ssa.Call); ok && isHist(inner.Common().StaticCallee()) {
				h := inner.Common().StaticCallee()
				for _, ret := range ssau.ReturnsOf(h) {
					if !c16QueryKeyedSet(ssau.ResultValue(ret, 0)) {
						return
					}
				}
				out = h
			}
			return
		}
		if call, ok := st.Val.(*ssa.Call); ok && isHist(call.Common().StaticCallee()) {
			h := call.Common().StaticCallee()
			for _, ret := range ssau.ReturnsOf(h) {
				arg := lenOf(ssau.ResultValue(ret, 0))
				if arg == nil || !c16QueryKeyedSet(arg) {
					return
				}
			}
			out = h
		}
	})
	return out
}

// c16RecentBackward: the library iterator form of the newest-first walk,
//
//	for _, entry := range slices.Backward(sh.Entries) { ... }
//
// whose body is a yield function: it appends entry.Query only when not yet
// seen, and stops the iteration (returns false) only when len(queries) has
// reached the limit. Emits the obligations of the walk and reports whether
// this form is present.
func c16RecentBackward(c *Ctx, sx *symx.Ctx, fn *ssa.Function, fk string) bool {
	r := c.R
	var body *ssa.Function
	ssau.ForEachInstr(fn, false, func(in ssa.Instruction) {
		call, ok := in.(*ssa.Call)
		if !ok || body != nil || call.Common().IsInvoke() {
			return
		}
		it, ok := call.Common().Value.(*ssa.Call)
		if !ok || !strings.HasPrefix(ssau.CallName(it), "slices.Backward") || len(it.Common().Args) != 1 {
			return
		}
		if _, ok := histFieldLoad(it.Common().Args[0], "Entries"); !ok {
			return
		}
		if mc, ok := call.Common().Args[0].(*ssa.MakeClosure); ok {
			body, _ = mc.Fn.(*ssa.Function)
		}
	})
	if body == nil || len(body.Params) != 2 {
		return false
	}
	r.OK("O-5", fk+"#newest-first-walk", c.P.Pos(body.Pos()), "ranges over slices.Backward(Entries): from the last entry down by one")
	f := sx.Of(body)
	cd := ssau.ControlDeps(body)
	entry := body.Params[1]
	isQuery := func(v ssa.Value) bool {
		base, ok := ssau.IsFieldLoad(v, histPkg+".SearchEntry", "Query")
		if !ok {
			if fl, isF := v.(*ssa.Field); isF && ssau.FieldName(fl) == "Query" && fl.X == ssa.Value(entry) {
				return true
			}
			return false
		}
		return base == ssa.Value(entry) || paramCell(base, entry)
	}
	nApp := 0
	ssau.ForEachInstr(body, false, func(in ssa.Instruction) {
		call, ok := in.(*ssa.Call)
		if !ok || ssau.CallName(call) != "builtin.append" {
			return
		}
		nApp++
		key := fmt.Sprintf("%s#append-%d", fk, nApp)
		val := appendedSingle(call)
		if val == nil || !isQuery(val) {
			r.Bad("O-5", key, c.P.Pos(call.Pos()), "the appended value is not the Query of the entry being visited: "+f.Plain(val))
			return
		}
		guarded := absentGuarded(cd, call.Block(), isQuery)
		r.Check(guarded, "O-5", key, c.P.Pos(call.Pos()), "appends the entry's Query only when not yet seen", "a query is appended without the `seen` test: recent queries are no longer distinct")
	})
	r.Floor("O-5", "appends in GetRecentQueries", nApp, 1)
	// stops: return false only under len(queries) >= limit
	isLimit := func(v ssa.Value) bool {
		u, ok := v.(*ssa.UnOp)
		if !ok {
			return false
		}
		fv, ok := u.X.(*ssa.FreeVar)
		if !ok {
			return false
		}
		cell := ssau.FreeVarCell(fv)
		if cell == nil {
			return false
		}
		// the limit parameter's variable (which a default may overwrite)
		for _, ref := range *cell.Referrers() {
			if st, ok := ref.(*ssa.Store); ok && st.Addr == ssa.Value(cell) && st.Val == ssa.Value(fn.Params[1]) {
				return true
			}
		}
		return false
	}
	nExit := 0
	for _, ret := range ssau.ReturnsOf(body) {
		k, isC := ssau.ResultValue(ret, 0).(*ssa.Const)
		if isC && k.Value != nil && k.Value.String() == "true" {
			continue
		}
		nExit++
		key := fmt.Sprintf("%s#walk-exit-%d", fk, nExit)
		good := false
		for _, d := range ssau.TransitiveControlDeps(cd, ret.Block()) {
			op, x, y, ok := ssau.CondOf(d.If().Cond)
			if !ok {
				continue
			}
			if !d.Then {
				op = ssau.Negate(op)
			}
			if lc, isLen := y.(*ssa.Call); isLen && ssau.CallName(lc) == "builtin.len" {
				x, y, op = y, x, ssau.Flip(op)
			}
			lc, isLen := x.(*ssa.Call)
			if !isLen || ssau.CallName(lc) != "builtin.len" || op != token.GEQ || !isLimit(y) {
				continue
			}
			if sl, ok := lc.Common().Args[0].Type().Underlying().(*types.Slice); ok {
				if b, ok := sl.Elem().Underlying().(*types.Basic); ok && b.Kind() == types.String {
					good = true
				}
			}
		}
		r.Check(good, "O-5", key, c.P.Pos(ret.Pos()), "the walk stops only when `limit` distinct queries were collected (or the log is exhausted)", "the walk over Entries can stop for another reason: fewer than `limit` distinct recent queries are returned although older entries hold more")
	}
	r.Floor("O-5", "exits of the recent-queries walk", nExit, 1)
	return true
}

// c16PointerTally: a table of one record pointer per query,
//
//	t, known := m[e.Query]; if !known { t = &T{...}; m[e.Query] = t }; t.N++
//
// st is the t.N++ store: an integer field of the record reached through the
// pointer looked up under the entry's Query (or just inserted under it),
// incremented by one.
func c16PointerTally(st *ssa.Store) bool {
	fa, ok := st.Addr.(*ssa.FieldAddr)
	if !ok {
		return false
	}
	if bt, ok := fa.Type().Underlying().(*types.Pointer).Elem().Underlying().(*types.Basic); !ok || bt.Info()&types.IsInteger == 0 {
		return false
	}
	bo, ok := st.Val.(*ssa.BinOp)
	if !ok || bo.Op != token.ADD {
		return false
	}
	if one, isOne := ssau.ConstInt(bo.Y); !isOne || one != 1 {
		return false
	}
	old, ok := bo.X.(*ssa.UnOp)
	if !ok {
		return false
	}
	if ofa, ok := old.X.(*ssa.FieldAddr); !ok || ofa.X != fa.X || ofa.Field != fa.Field {
		return false
	}
	isQueryKey := func(v ssa.Value) bool {
		u, ok := v.(*ssa.UnOp)
		if !ok {
			return false
		}
		kfa, ok := u.X.(*ssa.FieldAddr)
		return ok && ssau.FieldName(kfa) == "Query"
	}
	var theMap ssa.Value
	fromTable := func(v ssa.Value) bool {
		switch x := v.(type) {
		case *ssa.Extract:
			lk, ok := x.Tuple.(*ssa.Lookup)
			if !ok || x.Index != 0 || !isQueryKey(lk.Index) {
				return false
			}
			if theMap != nil && theMap != lk.X {
				return false
			}
			theMap = lk.X
			return true
		case *ssa.Lookup:
			if x.CommaOk || !isQueryKey(x.Index) {
				return false
			}
			theMap = x.X
			return true
		case *ssa.Alloc:
			// a new record, inserted under the entry's Query
			for _, ref := range *x.Referrers() {
				if mu, ok := ref.(*ssa.MapUpdate); ok && mu.Value == ssa.Value(x) && isQueryKey(mu.Key) {
					return true
				}
			}
		}
		return false
	}
	switch p := fa.X.(type) {
	case *ssa.Phi:
		for _, e := range p.Edges {
			if !fromTable(e) {
				return false
			}
		}
		return len(p.Edges) > 0 && theMap != nil
	default:
		return fromTable(p) && theMap != nil
	}
}
