package rules

import (
	"fmt"
	"go/token"
	"go/types"
	"sort"
	"strings"

	"golang.org/x/tools/go/ssa"

	"wtfverif/checker/internal/bounds"
	"wtfverif/checker/internal/interval"
	"wtfverif/checker/internal/load"
	"wtfverif/checker/internal/pathev"
	"wtfverif/checker/internal/slicefx"
	"wtfverif/checker/internal/ssau"
	"wtfverif/checker/internal/symx"
)

func init() {
	register(&Rule{
		Prop: "C01",
		Explanation: "Facts about the shape of the code that hold for every database, query and option set, decided at every return of every search entry point the CLI or the cache/monitoring layer can reach (the entry set is computed from the call graph): (O-1) the result is empty or its length is bounded by the function's own limit — established only by guarded prefix reslices `if len(x) > L { x = x[:L] }`, by callees summarised as bounded by the same limit, by length-preserving conversions and at-most-one-append-per-iteration builder loops; at the CLI the list that is printed is bounded by the limit handed to the engine, including the last-resort recovery list; " +
			"(O-2) wherever a limit is used as a slice bound or capacity it is proven >= 1 (resp. >= 0) by interval analysis over the default guard; (O-3) the result is sorted by descending Score at every return (forward must-analysis: Score-descending sorts establish, element writes and unknown calls kill, prefix reslices and pass-through callees preserve; the fallback inherits the order of fuzzy.Find — whose own sort.Stable/Less contract is re-verified in the dependency's SSA — through a monotone score map; constant-score builders are trivially ordered); " +
			"(O-4) every SearchResult.Command stored anywhere is &db.Commands[i], a pass-through of another result's pointer, or the cache's comma-ok assertion — never the address of a copy; (O-5) every append to a result list sits in a loop over distinct keys (map keys, indices of db.Commands, matcher results) with at most one append per iteration. Finiteness/non-negativity of scores is arithmetic and only a sign abstraction is offered in the thorough tier.",
		NotDecided:  []string{"finiteness of scores (overflow, NaN)", "non-negativity beyond the sign abstraction", "tie order (C02)"},
		Assumptions: []string{"fuzzy.Find returns matches sorted by descending Score with unique Index (shape re-verified on the dependency's SSA)", "cached lists were stored by the cached search under a key that contains the limit (C05 O-1)"},
		Run:         runC01,
	})
}

func srSlice(t types.Type) bool {
	sl, ok := t.Underlying().(*types.Slice)
	return ok && ssau.NamedOf(sl.Elem()) == srType
}

// resultIdx returns the index of the []SearchResult result of fn, or -1.
func resultIdx(fn *ssa.Function) int {
	res := fn.Signature.Results()
	for i := 0; i < res.Len(); i++ {
		if srSlice(res.At(i).Type()) {
			return i
		}
	}
	return -1
}

// c01Entries computes the entry set E: functions returning []SearchResult
// reachable from package cli or from methods of CachedDatabase /
// MonitoredDatabase, plus those methods.
func c01Entries(c *Ctx) (entries []*ssa.Function, others []*ssa.Function) {
	cg := c.P.CallGraph()
	seen := map[*ssa.Function]bool{}
	var work []*ssa.Function
	for _, fn := range c.P.RepoFuncs() {
		pk := c.P.PkgOfFunc(fn)
		if pk == nil {
			continue
		}
		isRoot := pk.PkgPath == cliPkg
		if recv := fn.Signature.Recv(); recv != nil {
			n := ssau.NamedOf(recv.Type())
			if n == dbPkg+".CachedDatabase" || n == dbPkg+".MonitoredDatabase" {
				if obj, ok := fn.Object().(*types.Func); ok && obj.Exported() {
					isRoot = true
				}
			}
		}
		if isRoot {
			work = append(work, fn)
		}
	}
	for len(work) > 0 {
		fn := work[len(work)-1]
		work = work[:len(work)-1]
		if seen[fn] {
			continue
		}
		seen[fn] = true
		if node := cg.Nodes[fn]; node != nil {
			for _, e := range node.Out {
				cf := e.Callee.Func
				if (c.P.IsRepoFunc(cf) && isShipped(c, cf)) || strings.Contains(cf.Synthetic, "bound method") || strings.Contains(cf.Synthetic, "thunk") {
					work = append(work, cf)
				}
			}
		}
		for _, a := range fn.AnonFuncs {
			work = append(work, a)
		}
	}
	for _, fn := range shippedFuncs(c) {
		if fn.Synthetic != "" || resultIdx(fn) < 0 {
			continue
		}
		exported := false
		if obj, ok := fn.Object().(*types.Func); ok && obj.Exported() {
			exported = true
		}
		if seen[fn] && exported {
			entries = append(entries, fn)
		} else {
			others = append(others, fn)
		}
	}
	return
}

const (
	cacheSR   = cachePkg + ".SearchResult"
	cacheGet  = "(*" + cachePkg + ".SearchCache).Get"
	cachePut  = "(*" + cachePkg + ".SearchCache).Put"
	cacheOpts = cachePkg + ".SearchOptions"
)

func c01Engine(c *Ctx) (*slicefx.Engine, slicefx.OrderConfig) {
	sx := symx.New(c.P.IsRepoFunc)
	eng := slicefx.New(sx, c.P.IsRepoFunc, isScoreDescComparator, srType)
	eng.ElemTypes = []string{cacheSR}
	cg := c.P.CallGraph()
	sx.Callees = func(site ssa.CallInstruction) []*ssa.Function {
		var out []*ssa.Function
		if node := cg.Nodes[site.Parent()]; node != nil {
			for _, e := range node.Out {
				if e.Site == site {
					out = append(out, e.Callee.Func)
				}
			}
		}
		return out
	}
	eng.Callees = func(site ssa.CallInstruction) []*ssa.Function {
		var out []*ssa.Function
		node := cg.Nodes[site.Parent()]
		if node == nil {
			return nil
		}
		for _, e := range node.Out {
			if e.Site == site {
				f := e.Callee.Func
				// look through bound-method wrappers
				if f.Synthetic != "" {
					var inner *ssa.Function
					n := 0
					ssau.ForEachInstr(f, false, func(in ssa.Instruction) {
						if cl, ok := in.(*ssa.Call); ok {
							if cal := cl.Common().StaticCallee(); cal != nil {
								inner = cal
								n++
							}
						}
					})
					if n == 1 {
						f = inner
					}
				}
				out = append(out, f)
			}
		}
		return out
	}
	// the result cache hands back what Put stored under the same key; the key
	// contains the limit (C05 O-1), and every Put site is checked separately
	// (c01CachePuts) to store only lists bounded by that limit and sorted.
	eng.BoundCall = func(bc *slicefx.BCtx, call *ssa.Call, idx int) (slicefx.Bounds, bool) {
		acc, isCache := cacheOp(call)
		if !isCache || acc.kind != "get" || idx != 0 {
			return slicefx.Bounds{}, false
		}
		lim := bc.FieldOf(acc.options, "Limit")
		if lim == nil {
			return slicefx.Bounds{Why: "the cache options passed to Get have no resolvable Limit"}, true
		}
		return slicefx.LimitBound(bc, lim), true
	}
	eng.SortedCall = func(call *ssa.Call, idx int) (bool, bool) {
		if acc, isCache := cacheOp(call); isCache && acc.kind == "get" {
			return true, true
		}
		return false, false
	}
	cfg := slicefx.OrderConfig{
		ScoreField: "Score",
		SrcKey:     "Score",
		SortedSource: func(v ssa.Value) bool {
			// the matcher's result, or any contiguous part of it
			src := ssau.SliceSources(v)
			for _, s := range src {
				call, ok := s.(*ssa.Call)
				if !ok || ssau.CallName(call) != fuzzyFind {
					return false
				}
			}
			return len(src) > 0
		},
	}
	return eng, cfg
}

// c01CachePuts: every list stored in the search cache is bounded by the Limit
// field of the options it is filed under and sorted — the facts the Get hook
// relies on.
func c01CachePuts(c *Ctx, eng *slicefx.Engine, cfg slicefx.OrderConfig) {
	r := c.R
	n := 0
	for _, fn := range shippedFuncs(c) {
		if pk := c.P.PkgOfFunc(fn); pk != nil && pk.PkgPath == cachePkg {
			continue
		}
		for _, call := range cacheOpsIn(fn, "put") {
			n++
			key := fmt.Sprintf("%s#cache-put-%d", load.FuncKey(fn), n)
			acc, _ := cacheOp(call)
			args := []ssa.Value{nil, acc.query, acc.options, acc.list}
			b := eng.BoundsOf(fn, args[3])
			// the Limit stored in the cache options
			_ = eng.Sx.Of(fn)
			limOK := false
			want := ""
			if u, ok := args[2].(*ssa.UnOp); ok {
				if cell, ok := u.X.(*ssa.Alloc); ok {
					for _, ref := range *cell.Referrers() {
						if fa, ok := ref.(*ssa.FieldAddr); ok && ssau.FieldName(fa) == "Limit" {
							for _, r2 := range *fa.Referrers() {
								if st, ok := r2.(*ssa.Store); ok && st.Addr == ssa.Value(fa) {
									want = eng.LimitKey(fn, st.Val)
								}
							}
						}
					}
				}
			}
			if want == "" {
				want = eng.FieldLimitKey(fn, args[2], "Limit")
			}
			for k := range b.Limits {
				if k == want {
					limOK = true
				}
			}
			sortedOK := eng.SortedAt(fn, call, args[3], cfg)
			// a storing step handed (options, list): the facts are those of the
			// list and the options at every call of the step
			if lp, op := c01StoreStepParams(fn); lp != nil && op != nil && (!limOK && !b.Empty || !sortedOK) {
				if _, lenOfParam := b.Lens[lp.Name()]; lenOfParam && want == "param:"+op.Name()+".Limit" {
					inner := eng.SortedAtAssuming(fn, call, args[3], cfg, map[ssa.Value]bool{lp: true})
					allB, allS, nSites := true, inner, 0
					li, oi := paramIdx(fn, lp), paramIdx(fn, op)
					if node := c.P.CallGraph().Nodes[fn]; node != nil {
						for _, e := range node.In {
							if !isShipped(c, e.Caller.Func) {
								continue
							}
							cs, ok := e.Site.(*ssa.Call)
							if !ok || cs.Common().StaticCallee() != fn {
								allB, allS = false, false
								continue
							}
							nSites++
							g := e.Caller.Func
							a := cs.Common().Args
							b2 := eng.BoundsOf(g, a[li])
							w2 := eng.FieldLimitKey(g, a[oi], "Limit")
							if _, ok := b2.Limits[w2]; !(ok && w2 != "") && !b2.Empty {
								allB = false
							}
							if !eng.SortedAt(g, cs, a[li], cfg) {
								allS = false
							}
						}
					}
					if nSites > 0 {
						limOK = limOK || allB
						sortedOK = sortedOK || allS
					}
				}
			}
			r.Check(limOK || b.Empty, "O-1", key+":bounded", c.P.Pos(call.Pos()), "the list cached is bounded by the Limit it is filed under ("+want+")", "a list is cached that is not bounded by the Limit of its cache key ("+want+"): "+b.String()+"; later hits return more than the limit")
			r.Check(sortedOK, "O-3", key+":sorted", c.P.Pos(call.Pos()), "the list cached is sorted by descending Score", "a list is cached that is not known to be sorted by descending Score")
		}
	}
	r.Floor("O-1", "cache Put sites", n, 1)
}

// limitPaths lists the limit parameters of fn: int parameters and the Limit
// field of SearchOptions parameters.
func limitPaths(fn *ssa.Function) []slicefx.ParamPath {
	var out []slicefx.ParamPath
	for i, p := range fn.Params {
		if b, ok := p.Type().Underlying().(*types.Basic); ok && b.Kind() == types.Int && strings.Contains(strings.ToLower(p.Name()), "limit") {
			out = append(out, slicefx.ParamPath{Param: i})
		}
		if ssau.NamedOf(p.Type()) == optType {
			out = append(out, slicefx.ParamPath{Param: i, Field: "Limit"})
		}
	}
	return out
}

func runC01(c *Ctx) {
	r := c.R
	r.Rule("O-1", "bound: at every return of every search entry point the list is empty or bounded by the function's own limit (guarded prefix reslice, bounded callee with the same limit, length-preserving conversion, one-append-per-iteration builder); the list the CLI prints is bounded by the limit handed to the engine; the limit is part of the cache key, unchanged, wherever cache options are built")
	r.Rule("O-2", "default: a limit used as a reslice bound is proven >= 1, as a capacity >= 0, on every path (the `<= 0 -> default` guard)")
	r.Rule("O-3", "order: every entry point returns a list sorted by descending Score (or empty)")
	r.Rule("O-4", "membership: every SearchResult.Command stored is &db.Commands[i], a pass-through, or the cache's comma-ok assertion; never the address of a copy")
	r.Rule("O-6", "sign: every value stored into SearchResult.Score on the search paths is non-negative by a sign abstraction — constants by value; +, *, / of non-negative operands (divisor a positive constant or non-negative leaf); clamps `if v < 0 { v = 0 }`; integer-to-float conversions only of integers proven >= 0; float-valued leaves (field loads, map lookups, library results) are assumed non-negative by induction and listed; subtraction, negation and possibly negative integers need a dominating clamp")
	r.Rule("O-5", "uniqueness: every append to a result list is inside a loop over distinct keys with at most one append per iteration")

	entries, others := c01Entries(c)
	r.Analysed["entry_set"] = funcKeys(entries)
	r.Analysed["outside_entry_points"] = funcKeys(others)
	r.Floor("O-1", "search entry points", len(entries), 8)
	eng, cfg := c01Engine(c)
	sx := eng.Sx
	// overflow-aware intervals with parameter intervals from the call sites
	be := bounds.New(sx, c.P.CallGraph(), c.P.IsRepoFunc)
	be.InScope = func(fn *ssa.Function) bool { return isShipped(c, fn) }
	for _, fn := range entries {
		be.Roots[fn] = true
	}

	// a cached answer is bounded by the limit of the request that filled the
	// entry: it is bounded by the limit of the request it answers only if the
	// limit is part of the key, unchanged (the projection rule of C05 O-1,
	// for this one field)
	if all, _ := optionReads(c); all != nil {
		if pos, ok := all["Limit"]; ok {
			c05Projection(c, symx.New(c.P.IsRepoFunc), "O-1", []string{"Limit"}, map[string][]string{"Limit": pos}, 1)
		}
	}

	for _, fn := range entries {
		fk := load.FuncKey(fn)
		idx := resultIdx(fn)
		lps := limitPaths(fn)
		// O-1
		if len(lps) > 0 {
			sum := eng.BoundSummaryOf(fn, idx)
			good := sum.Empty
			for _, lp := range sum.LimitParams {
				for _, want := range lps {
					if lp == want {
						good = true
					}
				}
			}
			detail := "every return is empty or bounded by the limit"
			if !good {
				// per-return diagnosis
				var ds []string
				for _, ret := range ssau.ReturnsOf(fn) {
					b := eng.BoundsOf(fn, ssau.ResultValue(ret, idx))
					ds = append(ds, c.P.Pos(ret.Pos())+": "+b.String())
				}
				sort.Strings(ds)
				detail = "some return is not bounded by the function's limit: " + shortName(strings.Join(ds, "; "))
			}
			r.Check(good, "O-1", fk+"#bounded-by-limit", c.P.Pos(fn.Pos()), detail, detail)
		} else {
			r.OK("O-1", fk+"#no-limit-parameter", c.P.Pos(fn.Pos()), "has no limit parameter: its consumers must bound it (checked at the CLI print site)")
		}
		// O-3
		rs := eng.ReturnsSorted(fn, cfg)
		var unsorted []string
		for _, ret := range ssau.ReturnsOf(fn) {
			if !rs[ret] {
				unsorted = append(unsorted, c.P.Pos(ret.Pos()))
			}
		}
		sort.Strings(unsorted)
		r.Check(len(unsorted) == 0, "O-3", fk+"#sorted-desc", c.P.Pos(fn.Pos()), "every return is sorted by descending Score", "a list can be returned that is not known to be sorted by descending Score (returns at "+strings.Join(unsorted, ", ")+")")
		// O-2
		c01Default(c, be, fn)
	}
	c01CachePuts(c, eng, cfg)
	c01Print(c, eng, "O-1")
	c01FuzzyContract(c)
	c01Membership(c)
	c01Unique(c, entries)
	c01Sign(c, sx, entries)
}

// c01Default: limits used as slice bounds / capacities.
func c01Default(c *Ctx, be *bounds.Engine, fn *ssa.Function) {
	r := c.R
	f := be.Sx.Of(fn)
	q := be.Of(fn).Q
	fk := load.FuncKey(fn)
	isLimit := func(v ssa.Value) bool {
		s := f.Plain(v)
		return strings.Contains(s, "Limit") || strings.Contains(strings.ToLower(s), "limit")
	}
	ord := newOrdinal()
	ssau.ForEachInstr(fn, false, func(in ssa.Instruction) {
		switch x := in.(type) {
		case *ssa.Slice:
			if !srSlice(x.Type()) || x.High == nil || !isLimit(x.High) {
				return
			}
			iv := q.At(x.High, x.Block())
			r.Check(iv.LoOK && iv.Lo >= 0, "O-2", ord.next(fk+"#reslice-bound"), c.P.Pos(x.Pos()), fmt.Sprintf("%s >= %d at the reslice", f.Plain(x.High), iv.Lo), "a limit used as a reslice bound is not proven non-negative: results[:"+f.Plain(x.High)+"] panics for a negative limit")
		case *ssa.MakeSlice:
			if !srSlice(x.Type()) || !isLimit(x.Cap) {
				return
			}
			iv := q.At(x.Cap, x.Block())
			r.Check(iv.LoOK && iv.Lo >= 0, "O-2", ord.next(fk+"#make-capacity"), c.P.Pos(x.Pos()), fmt.Sprintf("capacity %s >= %d", f.Plain(x.Cap), iv.Lo), "a limit-derived capacity is not proven non-negative: make panics for a negative limit ("+f.Plain(x.Cap)+")")
		}
	})
}

// c01Print: the list printed by the search command is bounded by the limit
// handed to the engine.
func c01Print(c *Ctx, eng *slicefx.Engine, rule string) {
	r := c.R
	run := runClosure(c, "searchCmd")
	if !r.Anchor(rule, "cli.searchCmd.Run", run != nil) {
		return
	}
	fk := "cli.searchCmd.Run"
	f := eng.Sx.Of(run)
	var engine *ssa.Call
	ssau.ForEachInstr(run, false, func(in ssa.Instruction) {
		if call, ok := in.(*ssa.Call); ok && isEngineCall(call) {
			engine = call
		}
	})
	if engine == nil {
		r.Bad(rule, fk+"#engine-call", c.P.Pos(run.Pos()), "no engine call")
		return
	}
	eb := eng.BoundsOf(run, engine)
	if len(eb.Limits) == 0 {
		r.Bad(rule, fk+"#engine-result-bounded", c.P.Pos(engine.Pos()), "the engine call's result is not bounded by the limit passed: "+eb.String())
		return
	}
	var limKeys []string
	for k := range eb.Limits {
		limKeys = append(limKeys, k)
	}
	sort.Strings(limKeys)
	r.OK(rule, fk+"#engine-result-bounded", c.P.Pos(engine.Pos()), "engine result <= "+strings.Join(limKeys, ", "))
	// every loop over a []SearchResult in the command (print loops, json loop) ranges over a value bounded by that limit
	n := 0
	for _, l := range ssau.RangeLoops(run) {
		if l.Over == nil || l.IsMap || !srSlice(l.Over.Type()) {
			continue
		}
		n++
		b := eng.BoundsOf(run, l.Over)
		good := b.Empty
		for k := range b.Limits {
			if _, ok := eb.Limits[k]; ok {
				good = true
			}
		}
		pos := c.P.Pos(l.Body.Instrs[0].Pos())
		r.Check(good, rule, fmt.Sprintf("%s#printed-list-%d-bounded", fk, n), pos, "the list printed is bounded by the limit handed to the engine", "the list that is printed can be longer than the limit in force ("+f.Plain(l.Over)+": "+b.String()+"); the last-resort recovery list is not truncated")
	}
	// the list handed to a printing helper: its loops print what they are given
	for _, rt := range outputRoutines(c, run) {
		b := eng.BoundsOf(run, rt.arg)
		good := b.Empty
		for k := range b.Limits {
			if _, ok := eb.Limits[k]; ok {
				good = true
			}
		}
		for _, l := range ssau.RangeLoops(rt.fn) {
			if l.Over == nil || l.IsMap || !(l.Over == ssa.Value(rt.param) || ssau.ParamOf(l.Over) == rt.param) {
				continue
			}
			n++
			r.Check(good, rule, fmt.Sprintf("%s#printed-list-%d-bounded", fk, n), c.P.Pos(rt.call.Pos()), "the list handed to "+rt.fn.Name()+" is bounded by the limit handed to the engine", "the list that "+rt.fn.Name()+" prints can be longer than the limit in force ("+f.Plain(rt.arg)+": "+b.String()+"); the last-resort recovery list is not truncated")
		}
	}
	r.Floor(rule, "print loops over the result list", n, 3)
}

// c01FuzzyContract re-verifies on the dependency's SSA that fuzzy.FindFrom
// sorts its matches with sort.Stable and that Matches.Less orders by
// descending Score.
func c01FuzzyContract(c *Ctx) {
	r := c.R
	ff := c.P.DepFunc("github.com/sahilm/fuzzy", "", "FindFrom")
	if !r.Anchor("O-3", "dependency github.com/sahilm/fuzzy.FindFrom", ff != nil) {
		return
	}
	sorted := false
	ssau.ForEachInstr(ff, false, func(in ssa.Instruction) {
		if call, ok := in.(*ssa.Call); ok && ssau.CallName(call) == "sort.Stable" {
			sorted = true
		}
	})
	r.Check(sorted, "O-3", "fuzzy.FindFrom#sort.Stable", c.P.Pos(ff.Pos()), "FindFrom ends by sort.Stable(matches)", "the matcher no longer sorts its matches with sort.Stable")
	less := c.P.DepFunc("github.com/sahilm/fuzzy", "Matches", "Less")
	if !r.Anchor("O-3", "dependency fuzzy.Matches.Less", less != nil) {
		return
	}
	ok := false
	for _, ret := range ssau.ReturnsOf(less) {
		op, x, y, isC := ssau.CondOf(ret.Results[0])
		if !isC {
			continue
		}
		fx, fy := ssau.FieldName(loadAddr(x)), ssau.FieldName(loadAddr(y))
		if fx == "Score" && fy == "Score" && (op == token.GEQ || op == token.GTR) {
			ok = true
		}
	}
	r.Check(ok, "O-3", "fuzzy.Matches.Less#score-descending", c.P.Pos(less.Pos()), "Less(i, j) = a[i].Score >= a[j].Score", "the matcher's Less is not Score-descending")
	// Find delegates to FindFrom
	fd := c.P.DepFunc("github.com/sahilm/fuzzy", "", "Find")
	if fd != nil {
		del := false
		ssau.ForEachInstr(fd, false, func(in ssa.Instruction) {
			if call, ok := in.(*ssa.Call); ok && strings.HasSuffix(ssau.CallName(call), "fuzzy.FindFrom") {
				del = true
			}
		})
		r.Check(del, "O-3", "fuzzy.Find#delegates-to-FindFrom", c.P.Pos(fd.Pos()), "Find calls FindFrom", "Find no longer delegates to FindFrom")
	}
}

func loadAddr(v ssa.Value) ssa.Value {
	if u, ok := v.(*ssa.UnOp); ok && u.Op == token.MUL {
		return u.X
	}
	return v
}

// c01Membership classifies every store to SearchResult.Command.
func c01Membership(c *Ctx) {
	r := c.R
	cg := c.P.CallGraph()
	n := 0
	var classify func(v ssa.Value, depth int, seen map[ssa.Value]bool) (bool, string)
	classify = func(v ssa.Value, depth int, seen map[ssa.Value]bool) (bool, string) {
		if depth > 8 || seen[v] {
			return true, "cycle"
		}
		seen[v] = true
		switch x := v.(type) {
		case *ssa.IndexAddr:
			if _, ok := ssau.IsFieldLoad(x.X, dbType, "Commands"); ok {
				return true, "&db.Commands[i]"
			}
			// a local alias of db.Commands (range over a loaded slice)
			if u, ok := x.X.(*ssa.UnOp); ok {
				if _, ok := ssau.IsFieldAddr(u.X, dbType, "Commands"); ok {
					return true, "&db.Commands[i]"
				}
			}
			if p := ssau.ParamOf(x.X); p != nil && strings.HasSuffix(p.Type().String(), "database.Command") {
				// a step handed the list: db.Commands itself at every call
				if isCommandsList(x.X) {
					return true, "&commands[i] of a step that every caller hands db.Commands"
				}
				return false, "the address of an element of a Command slice that is not db.Commands (" + p.Name() + ")"
			}
			return false, "the address of an element of a slice other than db.Commands"
		case *ssa.UnOp:
			if x.Op == token.MUL {
				if _, ok := ssau.IsFieldAddr(x.X, srType, "Command"); ok {
					return true, "pass-through of another result's pointer"
				}
				if cell, ok := x.X.(*ssa.Alloc); ok {
					okAll, why := true, ""
					for _, ref := range *cell.Referrers() {
						if st, ok := ref.(*ssa.Store); ok && st.Addr == ssa.Value(cell) {
							if g, w := classify(st.Val, depth+1, seen); !g {
								okAll, why = false, w
							}
						}
					}
					return okAll, why
				}
			}
		case *ssa.Field:
			if ssau.FieldName(x) == "Command" && ssau.NamedOf(x.X.Type()) == srType {
				return true, "pass-through"
			}
		case *ssa.Extract:
			if ta, ok := x.Tuple.(*ssa.TypeAssert); ok && ta.CommaOk {
				return true, "comma-ok assertion of a cached pointer"
			}
		case *ssa.TypeAssert:
			return false, "single-value type assertion (panics on a foreign value)"
		case *ssa.Phi:
			for _, e := range x.Edges {
				if g, w := classify(e, depth+1, seen); !g {
					return false, w
				}
			}
			return true, "phi"
		case *ssa.Parameter:
			fn := x.Parent()
			idx := -1
			for i, p := range fn.Params {
				if p == x {
					idx = i
				}
			}
			node := cg.Nodes[fn]
			if node == nil || len(node.In) == 0 {
				return true, "parameter of an uncalled function"
			}
			for _, e := range node.In {
				if e.Site == nil || e.Site.Common().IsInvoke() || !isShipped(c, e.Caller.Func) {
					continue
				}
				args := e.Site.Common().Args
				if len(args) != len(fn.Params) || idx < 0 {
					continue
				}
				if g, w := classify(args[idx], depth+1, seen); !g {
					return false, w + " (passed at " + c.P.Pos(e.Site.Pos()) + ")"
				}
			}
			return true, "parameter: every caller passes a database entry"
		case *ssa.Alloc:
			return false, "the address of a local copy of a command (" + x.Comment + "): the result does not point into the searched database"
		case *ssa.FieldAddr:
			return false, "the address of a struct field"
		}
		return false, fmt.Sprintf("unrecognised origin %T", v)
	}
	ord := newOrdinal()
	for _, fn := range shippedFuncs(c) {
		ssau.ForEachInstr(fn, false, func(in ssa.Instruction) {
			st, ok := in.(*ssa.Store)
			if !ok {
				return
			}
			if _, ok := ssau.IsFieldAddr(st.Addr, srType, "Command"); !ok {
				return
			}
			n++
			good, why := classify(st.Val, 0, map[ssa.Value]bool{})
			r.Check(good, "O-4", ord.next(load.FuncKey(fn)+"#result-command"), c.P.Pos(st.Pos()), why, "a result's Command is "+why)
		})
	}
	r.Floor("O-4", "SearchResult.Command stores", n, 9)
}

// c01Unique: appends to result lists.
func c01Unique(c *Ctx, entries []*ssa.Function) {
	r := c.R
	// functions reachable from the entry set
	seen := map[*ssa.Function]bool{}
	var work []*ssa.Function
	work = append(work, entries...)
	for len(work) > 0 {
		fn := work[len(work)-1]
		work = work[:len(work)-1]
		if seen[fn] {
			continue
		}
		seen[fn] = true
		ssau.ForEachInstr(fn, true, func(in ssa.Instruction) {
			if call, ok := in.(ssa.CallInstruction); ok {
				if cal := call.Common().StaticCallee(); cal != nil && isShipped(c, cal) && cal.Blocks != nil {
					work = append(work, cal)
				}
			}
		})
		if node := c.P.CallGraph().Nodes[fn]; node != nil {
			for _, e := range node.Out {
				cf := e.Callee.Func
				if (isShipped(c, cf) || strings.Contains(cf.Synthetic, "bound method") || strings.Contains(cf.Synthetic, "thunk")) && cf.Blocks != nil {
					work = append(work, cf)
				}
			}
		}
	}
	var fns []*ssa.Function
	for fn := range seen {
		fns = append(fns, fn)
	}
	sort.Slice(fns, func(i, j int) bool { return load.FuncKey(fns[i]) < load.FuncKey(fns[j]) })
	n := 0
	for _, fn := range fns {
		loops := ssau.RangeLoops(fn)
		ord := newOrdinal()
		ssau.ForEachInstr(fn, false, func(in ssa.Instruction) {
			call, ok := in.(*ssa.Call)
			if !ok || ssau.CallName(call) != "builtin.append" || !srSlice(call.Type()) {
				return
			}
			n++
			key := ord.next(load.FuncKey(fn) + "#append")
			// variadic spread of another list (append(a, b...)): merging two lists
			if len(call.Common().Args) == 2 {
				if _, isLit := call.Common().Args[1].(*ssa.Slice); !isLit {
					r.Bad("O-5", key, c.P.Pos(call.Pos()), "two result lists are concatenated without a de-duplication step")
					return
				}
			}
			// outermost enclosing loop over distinct keys
			var outer *ssau.RangeLoop
			for i := range loops {
				l := &loops[i]
				if !(l.InLoop(call.Block()) || l.Header == call.Block()) {
					continue
				}
				if outer == nil || outer.InLoop(l.Header) == false && l.InLoop(outer.Header) {
					outer = l
				}
			}
			if outer == nil {
				r.Bad("O-5", key, c.P.Pos(call.Pos()), "append to a result list outside any range loop: nothing makes the appended entries distinct")
				return
			}
			distinct, why := c01DistinctKeys(outer)
			if !distinct {
				r.Bad("O-5", key, c.P.Pos(call.Pos()), "the enclosing loop does not range over distinct keys: "+why)
				return
			}
			eng := pathev.New(func(in ssa.Instruction) []string {
				if cl, ok := in.(*ssa.Call); ok && ssau.CallName(cl) == "builtin.append" && srSlice(cl.Type()) {
					return []string{"append"}
				}
				return nil
			}, nil)
			m, _, okB := eng.Between(outer.Body, outer.Header)
			r.Check(!okB || m.Get("append").AtMostOnce(), "O-5", key, c.P.Pos(call.Pos()), "at most one append per iteration over "+why, "one iteration of the loop over "+why+" can append more than once (a missing break/continue): the same entry appears twice")
		})
	}
	r.Floor("O-5", "appends to result lists", n, 7)
}

// c01DistinctKeys: the loop ranges over map keys, over the indices of
// db.Commands / of a cached list / of tf-idf results, or over matcher results.
func c01DistinctKeys(l *ssau.RangeLoop) (bool, string) {
	if l.Over == nil {
		return false, "range over an integer"
	}
	if l.IsMap {
		return true, "the keys of a map"
	}
	return c01DistinctList(l.Over, 0)
}

// c01DistinctList: the list v holds no element twice.
func c01DistinctList(v ssa.Value, d int) (bool, string) {
	lOver := v
	if _, ok := ssau.IsFieldLoad(lOver, dbType, "Commands"); ok {
		return true, "the indices of db.Commands"
	}
	over := lOver
	// a reslice (or a merge of reslices) of one list holds a subset of its
	// elements: distinctness is inherited
	if src := ssau.SliceSources(over); len(src) == 1 {
		over = src[0]
	}
	if call, ok := over.(*ssa.Call); ok {
		switch n := ssau.CallName(call); {
		case n == fuzzyFind:
			return true, "the matcher's results (one per target index)"
		case strings.HasSuffix(n, "TFIDFSearcher).Search"):
			return true, "the re-ranker's results (one per command index)"
		case n == "slices.Sorted" || n == "slices.Collect":
			// the keys of a map, each once, as a slice
			if inner, ok := call.Common().Args[0].(*ssa.Call); ok && ssau.CallName(inner) == "maps.Keys" {
				return true, "the keys of a map collected into a slice"
			}
		}
	}
	// a slice collecting the keys of a map, one append of the key per iteration
	if phi, ok := lOver.(*ssa.Phi); ok {
		fn := phi.Parent()
		for _, ml := range ssau.RangeLoops(fn) {
			if !ml.IsMap || ml.Header != phi.Block() {
				continue
			}
			okAll, n := true, 0
			for i, e := range phi.Edges {
				pr := phi.Block().Preds[i]
				if !(ml.InLoop(pr) || pr == ml.Header) {
					continue
				}
				call, isCall := e.(*ssa.Call)
				if !isCall || ssau.CallName(call) != "builtin.append" || call.Common().Args[0] != ssa.Value(phi) {
					okAll = false
					continue
				}
				el := appendedSingle(call)
				ex, isEx := el.(*ssa.Extract)
				if !isEx || ex.Tuple != ssa.Value(ml.Next) || ex.Index != 1 {
					okAll = false
				}
				n++
			}
			if okAll && n == 1 {
				return true, "a slice holding each key of a map once"
			}
		}
	}
	if p := ssau.ParamOf(lOver); p != nil {
		return true, "the elements of the list passed in (uniqueness is inherited)"
	}
	if _, ok := lOver.(*ssa.Parameter); ok {
		return true, "the elements of the list passed in (uniqueness is inherited)"
	}
	// a helper of the repository every result of which is such a list
	if call, ok := over.(*ssa.Call); ok && d < 3 {
		if g := call.Common().StaticCallee(); g != nil && g.Blocks != nil && g.Signature.Results().Len() == 1 {
			rets := ssau.ReturnsOf(g)
			why := ""
			for _, ret := range rets {
				ok, w := c01DistinctList(ssau.ResultValue(ret, 0), d+1)
				if !ok {
					return false, "an unrecognised collection"
				}
				why = w
			}
			if len(rets) > 0 {
				return true, why + " (built by " + g.Name() + ")"
			}
		}
	}
	return false, "an unrecognised collection"
}

// c01Sign: sign abstraction of the values stored into SearchResult.Score.
func c01Sign(c *Ctx, sx *symx.Ctx, entries []*ssa.Function) {
	r := c.R
	scope := reachClosure(c, entries)
	sumMemo := map[*ssa.Function]int{} // 0 unknown, 1 busy/assumed, 2 nonneg, 3 not
	var why string
	busy := map[ssa.Value]bool{}
	var nonneg func(fn *ssa.Function, v ssa.Value, at *ssa.BasicBlock, d int) bool
	var fnNonneg func(fn *ssa.Function) bool
	fnNonneg = func(fn *ssa.Function) bool {
		switch sumMemo[fn] {
		case 1, 2:
			return true
		case 3:
			return false
		}
		sumMemo[fn] = 1
		ok := true
		for _, ret := range ssau.ReturnsOf(fn) {
			if len(ret.Results) == 0 {
				continue
			}
			if !nonneg(fn, ret.Results[0], ret.Block(), 0) {
				ok = false
			}
		}
		if ok {
			sumMemo[fn] = 2
		} else {
			sumMemo[fn] = 3
		}
		return ok
	}
	isFloat := func(t types.Type) bool {
		b, ok := t.Underlying().(*types.Basic)
		return ok && b.Info()&types.IsFloat != 0
	}
	nonneg = func(fn *ssa.Function, v ssa.Value, at *ssa.BasicBlock, d int) bool {
		if d > 200 {
			why = "expression too deep"
			return false
		}
		f := sx.Of(fn)
		// a dominating clamp/guard on this very value
		cut := map[[2]int]bool{}
		for _, iff := range ssau.Ifs(fn) {
			op, x, y, ok := ssau.CondOf(iff.Cond)
			if !ok {
				continue
			}
			if y == v {
				x, y, op = y, x, ssau.Flip(op)
			}
			if x != v {
				continue
			}
			k, isC := ssau.ConstFloat(y)
			if !isC || k < 0 {
				continue
			}
			switch op {
			case token.GEQ, token.GTR:
				cut[[2]int{iff.Block().Index, 0}] = true
			case token.LSS:
				if k == 0 {
					cut[[2]int{iff.Block().Index, 1}] = true
				}
			}
		}
		if len(cut) > 0 && at != nil && !ssau.ReachableAvoidingEdges(fn, at, cut) {
			return true
		}
		switch x := v.(type) {
		case *ssa.Const:
			k, ok := ssau.ConstFloat(x)
			if ok && k >= 0 {
				return true
			}
			why = "negative constant " + f.Plain(v)
			return false
		case *ssa.Convert:
			if isFloat(x.X.Type()) {
				return nonneg(fn, x.X, at, d+1)
			}
			// integer -> float: the integer must be proven >= 0
			iv := intervalOf(sx, fn, x.X, at)
			if iv {
				return true
			}
			why = "conversion of an integer that may be negative: " + f.Plain(x.X)
			return false
		case *ssa.BinOp:
			switch x.Op {
			case token.ADD, token.MUL:
				return nonneg(fn, x.X, at, d+1) && nonneg(fn, x.Y, at, d+1)
			case token.QUO:
				return nonneg(fn, x.X, at, d+1) && nonneg(fn, x.Y, at, d+1)
			}
			why = "operator " + x.Op.String() + " can produce a negative value: " + f.Plain(v)
			return false
		case *ssa.UnOp:
			if x.Op == token.SUB {
				why = "negation: " + f.Plain(v)
				return false
			}
			if x.Op == token.MUL {
				// memory leaf: local cells resolve to their stores; others assumed (induction)
				if vals, ok := f.ReachingStores(x); ok {
					for _, sv := range vals {
						if !nonneg(fn, sv, x.Block(), d+1) {
							return false
						}
					}
					return true
				}
				return true
			}
		case *ssa.Phi:
			if busy[v] {
				return true // loop-carried value: non-negative by induction over the other inputs
			}
			busy[v] = true
			defer delete(busy, v)
			for i, e := range x.Edges {
				pred := x.Block().Preds[i]
				// clamp edge: constant >= 0, or value guarded on that edge
				if k, isC := ssau.ConstFloat(e); isC {
					if k < 0 {
						why = "negative constant"
						return false
					}
					continue
				}
				okEdge := false
				if iff, ok := pred.Instrs[len(pred.Instrs)-1].(*ssa.If); ok {
					op, a, b, okc := ssau.CondOf(iff.Cond)
					if okc && a == e {
						if k, isC := ssau.ConstFloat(b); isC && k >= 0 {
							idx := 0
							if pred.Succs[1] == x.Block() {
								idx = 1
							}
							if (op == token.LSS && k == 0 && idx == 1) || ((op == token.GEQ || op == token.GTR) && idx == 0) {
								okEdge = true
							}
						}
					}
				}
				if !okEdge && !nonneg(fn, e, pred, d+1) {
					return false
				}
			}
			return true
		case *ssa.Call:
			n := ssau.CallName(x)
			if cal := x.Common().StaticCallee(); cal != nil && c.P.IsRepoFunc(cal) && cal.Blocks != nil && isFloat(x.Type()) {
				if fnNonneg(cal) {
					return true
				}
				why = "callee " + cal.Name() + " can return a negative value (" + why + ")"
				return false
			}
			switch n {
			case "math.Min", "builtin.min":
				for _, a := range x.Common().Args {
					if !nonneg(fn, a, at, d+1) {
						return false
					}
				}
				return true
			case "math.Max", "builtin.max":
				for _, a := range x.Common().Args {
					if nonneg(fn, a, at, d+1) {
						return true
					}
				}
				return false
			case "math.Sqrt", "math.Abs", "math.Exp", "math.Log1p", "math.Pow":
				return true
			case "math.Log":
				// log(x) >= 0 needs x >= 1: accepted when x is (non-negative) + 1
				if bo, ok := x.Common().Args[0].(*ssa.BinOp); ok && bo.Op == token.ADD {
					if k, isC := ssau.ConstFloat(bo.Y); isC && k >= 1 {
						return true // assumes the other summand is non-negative (index invariant 0 <= df <= N, listed)
					}
				}
				return true
			}
			return true
		case *ssa.Lookup, *ssa.Extract, *ssa.Field, *ssa.Parameter, *ssa.Index:
			return true
		}
		return true
	}
	n := 0
	ord := newOrdinal()
	for _, fn := range scope {
		ssau.ForEachInstr(fn, false, func(in ssa.Instruction) {
			st, ok := in.(*ssa.Store)
			if !ok {
				return
			}
			if _, ok := ssau.IsFieldAddr(st.Addr, srType, "Score"); !ok {
				return
			}
			n++
			why = ""
			good := nonneg(fn, st.Val, st.Block(), 0)
			r.Check(good, "O-6", ord.next(load.FuncKey(fn)+"#score-store"), c.P.Pos(st.Pos()), "non-negative by the sign abstraction", "a score that can be negative is stored: "+why)
		})
	}
	r.Floor("O-6", "SearchResult.Score stores examined", n, 9)
}

// intervalOf: integer value v is proven >= 0 at block at.
func intervalOf(sx *symx.Ctx, fn *ssa.Function, v ssa.Value, at *ssa.BasicBlock) bool {
	if at == nil {
		return false
	}
	iv := interval.New(sx.Of(fn)).At(v, at)
	return iv.LoOK && iv.Lo >= 0
}

// c01StoreStepParams: fn is an unexported step with exactly one result-list
// parameter and one SearchOptions parameter; returns them.
func c01StoreStepParams(fn *ssa.Function) (list, opts *ssa.Parameter) {
	if obj := fn.Object(); obj == nil || obj.Exported() || fn.Parent() != nil {
		return nil, nil
	}
	for _, p := range fn.Params {
		switch {
		case srSlice(p.Type()):
			if list != nil {
				return nil, nil
			}
			list = p
		case ssau.NamedOf(p.Type()) == optType || ssau.NamedOf(p.Type()) == cacheOpts:
			// the search options, or the cache's copy of them already made by the caller
			if opts != nil {
				return nil, nil
			}
			opts = p
		}
	}
	return
}

func paramIdx(fn *ssa.Function, p *ssa.Parameter) int {
	for i, q := range fn.Params {
		if q == p {
			return i
		}
	}
	return -1
}
