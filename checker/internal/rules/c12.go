package rules

import (
	"fmt"
	"go/token"
	"go/types"
	"sort"
	"strings"

	"golang.org/x/tools/go/callgraph"
	"golang.org/x/tools/go/ssa"

	"wtfverif/checker/internal/load"
	"wtfverif/checker/internal/pathev"
	"wtfverif/checker/internal/ssau"
)

const (
	cachePkg  = load.ModulePath + "/internal/cache"
	lruType   = cachePkg + ".LRUCache"
	entryType = cachePkg + ".Entry"
	listNew   = "(*container/list.List)."
)

func init() {
	register(&Rule{
		Prop: "C12",
		Explanation: "Per-method protocol obligations of cache.LRUCache decided on the SSA form for all paths: capacity test and eviction of the list's back element after every insertion, map/list pairing of insert and remove, move-to-front on every hit and update, expiry test (CreatedAt against ttl) guarding every hit, exactly-one hits++/misses++ per Get exit, evictions++ paired with capacity evictions only, statistics read the live fields. " +
			"These are the mechanisms whose breach changes the abstract LRU behaviour; conformance to an LRU model over all histories is NOT decided.",
		NotDecided: []string{
			"equivalence with a reference LRU model over all operation sequences",
			"real-time behaviour of the TTL (time.Now/time.Since are trusted)",
			"container/list semantics (Back is the oldest element when every touch goes through PushFront/MoveToFront) is taken from the standard library",
		},
		Assumptions: []string{"container/list and time behave as documented"},
		Run:         runC12,
	})
}

// c12CounterOwner is the struct type that holds the hits/misses/evictions
// counters: LRUCache itself, or a struct it embeds them in (c.metrics.hits).
var c12CounterOwner = lruType

func c12FindCounterOwner(c *Ctx) {
	c12CounterOwner = lruType
	pk := c.P.Pkg("internal/cache")
	if pk == nil {
		return
	}
	obj := pk.Types.Scope().Lookup("LRUCache")
	if obj == nil {
		return
	}
	st, ok := obj.Type().Underlying().(*types.Struct)
	if !ok {
		return
	}
	has := func(s *types.Struct, name string) bool {
		for i := 0; i < s.NumFields(); i++ {
			if s.Field(i).Name() == name {
				return true
			}
		}
		return false
	}
	if has(st, "hits") {
		return
	}
	for i := 0; i < st.NumFields(); i++ {
		t := st.Field(i).Type()
		if p, ok := t.Underlying().(*types.Pointer); ok {
			t = p.Elem()
		}
		if inner, ok := t.Underlying().(*types.Struct); ok && has(inner, "hits") {
			if n := ssau.NamedOf(t); n != "" {
				c12CounterOwner = n
			}
		}
	}
}

// lruEnv caches the resolved methods of LRUCache.
type lruEnv struct {
	c       *Ctx
	methods map[string]*ssa.Function
	eng     *pathev.Engine
}

func (e *lruEnv) isLRUMethod(fn *ssa.Function) bool {
	if fn == nil || fn.Signature.Recv() == nil {
		return false
	}
	n := ssau.NamedOf(fn.Signature.Recv().Type())
	return n == lruType || (c12CounterOwner != lruType && n == c12CounterOwner)
}

// loadOfLRUField: v is a load of c.<field> of an LRUCache.
func isLRULoad(v ssa.Value, field string) bool {
	if _, ok := ssau.IsFieldLoad(v, lruType, field); ok {
		return true
	}
	if c12CounterOwner != lruType && (field == "hits" || field == "misses" || field == "evictions") {
		_, ok := ssau.IsFieldLoad(v, c12CounterOwner, field)
		return ok
	}
	return false
}

// entryOfElement: v == elem.Value.(*Entry) -> elem
func entryOfElement(v ssa.Value) ssa.Value {
	// through an accessor of the package: func entryOf(e *list.Element) *Entry
	// { return e.Value.(*Entry) }
	// (or a step that also records the access: func (c) touch(e, now) *Entry)
	if call, isCall := v.(*ssa.Call); isCall {
		if g := call.Common().StaticCallee(); g != nil && g.Blocks != nil && g.Pkg != nil && strings.HasSuffix(g.Pkg.Pkg.Path(), "/internal/cache") {
			rets := ssau.ReturnsOf(g)
			if len(rets) == 1 && len(rets[0].Results) == 1 {
				if base := entryOfElement(ssau.ResultValue(rets[0], 0)); base != nil {
					for i, q := range g.Params {
						if base == ssa.Value(q) && i < len(call.Common().Args) {
							return call.Common().Args[i]
						}
					}
				}
			}
		}
		return nil
	}
	ta, ok := v.(*ssa.TypeAssert)
	if !ok || ssau.NamedOf(ta.AssertedType) != entryType {
		return nil
	}
	base, ok := ssau.IsFieldLoad(ta.X, "container/list.Element", "Value")
	if ok {
		return base
	}
	// list.Remove(e) returns e.Value
	if call, isCall := ta.X.(*ssa.Call); isCall && ssau.CallName(call) == "(*container/list.List).Remove" && len(call.Common().Args) == 2 {
		return call.Common().Args[1]
	}
	return nil
}

func lruTag(in ssa.Instruction) []string {
	switch x := in.(type) {
	case *ssa.Call:
		name := ssau.CallName(x)
		args := x.Common().Args
		if len(args) > 0 && isLRULoad(args[0], "evictList") {
			switch name {
			case listNew + "Remove":
				return []string{"list.Remove"}
			case listNew + "PushFront":
				return []string{"list.PushFront", "touch"}
			case listNew + "PushBack", listNew + "InsertBefore", listNew + "InsertAfter":
				return []string{"list.PushOther"}
			case listNew + "MoveToFront":
				return []string{"list.MoveToFront", "touch"}
			case listNew + "MoveToBack", listNew + "MoveBefore", listNew + "MoveAfter":
				return []string{"list.MoveOther"}
			case listNew + "Init":
				return []string{"list.Init"}
			}
		}
		if name == "builtin.delete" && len(args) == 2 && isLRULoad(args[0], "items") {
			return []string{"map.delete"}
		}
		if name == "builtin.clear" && len(args) == 1 && isLRULoad(args[0], "items") {
			return []string{"items=new"} // emptied in place: as good as a fresh map
		}
	case *ssa.MapUpdate:
		if isLRULoad(x.Map, "items") {
			return []string{"map.update"}
		}
	case *ssa.Store:
		// the whole counter struct zeroed at once: *m = counters{}
		if c12CounterOwner != lruType && ssau.NamedOf(x.Addr.Type()) == c12CounterOwner {
			if k, isC := x.Val.(*ssa.Const); isC && k.Value == nil {
				return []string{"hits=0", "misses=0", "evictions=0"}
			}
			if ld, ok := x.Val.(*ssa.UnOp); ok && ld.Op == token.MUL {
				if lit, ok := ld.X.(*ssa.Alloc); ok {
					zero := true
					for _, ref := range *lit.Referrers() {
						if _, isFA := ref.(*ssa.FieldAddr); isFA {
							zero = false
						}
						if st2, isSt := ref.(*ssa.Store); isSt && st2.Addr == ssa.Value(lit) {
							zero = false
						}
					}
					if zero {
						return []string{"hits=0", "misses=0", "evictions=0"}
					}
				}
			}
			return []string{"hits=?", "misses=?", "evictions=?"}
		}
		for _, f := range []string{"hits", "misses", "evictions"} {
			if ssau.IsIncrement(x, c12CounterOwner, f) {
				return []string{f + "++"}
			}
			if _, ok := ssau.IsFieldAddr(x.Addr, c12CounterOwner, f); ok {
				if n, isc := ssau.ConstInt(x.Val); isc && n == 0 {
					return []string{f + "=0"}
				}
				return []string{f + "=?"}
			}
		}
		if _, ok := ssau.IsFieldAddr(x.Addr, lruType, "items"); ok {
			return []string{"items=new"}
		}
		if _, ok := ssau.IsFieldAddr(x.Addr, lruType, "evictList"); ok {
			return []string{"evictList=new"}
		}
	}
	return nil
}

func runC12(c *Ctx) {
	r := c.R
	r.Rule("O-1", "capacity: every insertion in Put is followed on all paths by the test Len() > capacity (or preceded by Len() >= capacity) whose true branch evicts the list's Back element; NewLRUCache replaces non-positive capacities by a positive constant")
	r.Rule("O-2", "map/list pairing: items[k]=e exactly where PushFront(e) is, with k the key stored in the entry; delete(items,k) exactly where evictList.Remove(e) is, with k read from e's entry; Clear resets both containers and the three counters")
	r.Rule("O-3", "recency: every hit exit of Get and every exit of Put passes MoveToFront/PushFront on the element concerned; no other list reordering")
	r.Rule("O-4", "expiry: a hit return of Get is reachable only through the false side of (ttl > 0 && since(CreatedAt) > ttl); the true side removes the element; CreatedAt is written only together with the value; sweeps remove only under the expiry test")
	r.Rule("O-5", "statistics: on every Get exit exactly one of hits++ (iff found) / misses++ (iff not found); evictions++ exactly where a capacity eviction removes an element; Stats/Size read the live fields; no other writes to the counters")
	r.Rule("O-6", "lookup returns the latest store: Put on an existing key stores the new value into Entry.Value, Get returns Entry.Value of the element found under the key")

	c12FindCounterOwner(c)
	env := &lruEnv{c: c, methods: map[string]*ssa.Function{}}
	env.eng = pathev.New(lruTag, env.isLRUMethod)
	names := []string{"Get", "Put", "Delete", "Clear", "Size", "Stats", "Keys", "CleanupExpired"}
	okAll := true
	for _, n := range names {
		fn := c.P.Func("internal/cache", "LRUCache", n)
		if !r.Anchor("O-1", "cache.(*LRUCache)."+n, fn != nil) {
			okAll = false
			continue
		}
		env.methods[n] = fn
	}
	newFn := c.P.Func("internal/cache", "", "NewLRUCache")
	if !r.Anchor("O-1", "cache.NewLRUCache", newFn != nil) {
		okAll = false
	}
	if !okAll {
		return
	}
	// all methods of LRUCache, including unexported helpers
	var all []*ssa.Function
	for _, fn := range c.P.RepoFuncs() {
		if env.isLRUMethod(fn) {
			all = append(all, fn)
		}
	}
	r.Analysed["lru_methods"] = funcKeys(all)
	r.Floor("O-2", "LRUCache methods analysed", len(all), 9)

	c12Capacity(env, newFn)
	c12Pairing(env, all)
	c12Recency(env, all)
	c12Expiry(env, all)
	c12Stats(env, all)
	c12Latest(env)
}

func funcKeys(fns []*ssa.Function) []string {
	var out []string
	for _, f := range fns {
		out = append(out, load.FuncKey(f))
	}
	return out
}

// lenVsCapacity recognises `evictList.Len() OP capacity` / `len(items) OP
// capacity` (either operand order) and returns OP normalised to size-on-left.
func lenVsCapacity(v ssa.Value) (token.Token, bool) {
	op, x, y, ok := ssau.CondOf(v)
	if !ok {
		return 0, false
	}
	isSize := func(v ssa.Value) bool {
		if call, ok := v.(*ssa.Call); ok {
			n := ssau.CallName(call)
			a := call.Common().Args
			if n == listNew+"Len" && len(a) == 1 && isLRULoad(a[0], "evictList") {
				return true
			}
			if n == "builtin.len" && len(a) == 1 && isLRULoad(a[0], "items") {
				return true
			}
		}
		return false
	}
	isCap := func(v ssa.Value) bool { return isLRULoad(v, "capacity") }
	if isSize(x) && isCap(y) {
		return op, true
	}
	if isCap(x) && isSize(y) {
		return ssau.Flip(op), true
	}
	return 0, false
}

func c12Capacity(env *lruEnv, newFn *ssa.Function) {
	c, r := env.c, env.c.R
	put := env.methods["Put"]
	findPushes := func(fn *ssa.Function) []*ssa.Call {
		var out []*ssa.Call
		ssau.ForEachInstr(fn, false, func(in ssa.Instruction) {
			if call, ok := in.(*ssa.Call); ok {
				for _, t := range lruTag(call) {
					if t == "list.PushFront" || t == "list.PushOther" {
						out = append(out, call)
					}
				}
			}
		})
		return out
	}
	pushes := findPushes(put)
	if len(pushes) == 0 {
		// the insertion lives in a helper Put calls on the same cache: the
		// capacity rule is then checked there
		ssau.ForEachInstr(put, false, func(in ssa.Instruction) {
			if call, ok := in.(*ssa.Call); ok && len(pushes) == 0 {
				if h := call.Common().StaticCallee(); h != nil && h != put && env.isLRUMethod(h) && len(h.Blocks) > 0 {
					if ps := findPushes(h); len(ps) > 0 {
						put, pushes = h, ps
					}
				}
			}
		})
	}
	pd := ssau.NewPostDom(put)
	r.Floor("O-1", "insertions in Put", len(pushes), 1)
	// capacity tests in Put
	type capIf struct {
		i  *ssa.If
		op token.Token
	}
	var caps []capIf
	for _, i := range ssau.Ifs(put) {
		if op, ok := lenVsCapacity(i.Cond); ok {
			caps = append(caps, capIf{i, op})
		}
	}
	evictCallsUnder := func(ci capIf, then bool) []*ssa.Call {
		// calls (transitively inlined LRU methods) that perform list.Remove,
		// located in blocks control dependent on the given branch side
		var out []*ssa.Call
		cd := ssau.ControlDeps(put)
		for _, b := range put.Blocks {
			dep := false
			for _, d := range ssau.TransitiveControlDeps(cd, b) {
				if d.Branch == ci.i.Block() && d.Then == then {
					dep = true
				}
			}
			if !dep {
				continue
			}
			for _, in := range b.Instrs {
				if call, ok := in.(*ssa.Call); ok {
					if cal := call.Common().StaticCallee(); cal != nil && env.isLRUMethod(cal) {
						if env.eng.Summary(cal).Get("list.Remove") != pathev.Zero {
							out = append(out, call)
						}
					}
					for _, t := range lruTag(call) {
						if t == "list.Remove" {
							out = append(out, call)
						}
					}
				}
			}
		}
		return out
	}
	for n, p := range pushes {
		key := fmt.Sprintf("cache.(*LRUCache).Put#insert-%d", n+1)
		pos := c.P.Pos(p.Pos())
		good := false
		detail := "no capacity test found that every path from the insertion to the return passes"
		for _, ci := range caps {
			after := pd.PostDominates(ci.i.Block(), p.Block()) && (ci.i.Block() != p.Block() || true)
			before := ci.i.Block().Dominates(p.Block()) && ci.i.Block() != p.Block()
			switch {
			case after && ci.op == token.GTR:
				if len(evictCallsUnder(ci, true)) > 0 {
					good = true
				} else {
					detail = "capacity test `size > capacity` found but its true branch does not evict"
				}
			case after && ci.op == token.LEQ:
				if len(evictCallsUnder(ci, false)) > 0 {
					good = true
				}
			case before && ci.op == token.GEQ:
				if len(evictCallsUnder(ci, true)) > 0 {
					good = true
				}
			case before && ci.op == token.LSS:
				if len(evictCallsUnder(ci, false)) > 0 {
					good = true
				}
			default:
				detail = fmt.Sprintf("capacity comparison is `size %s capacity` at %s, which lets the cache exceed its capacity or evicts too early", ci.op, c.P.Pos(ci.i.Pos()))
			}
		}
		r.Check(good, "O-1", key, pos, "followed on all paths by size > capacity => evict", detail)
		// the insertion is a PushFront (most recent end)
		r.Check(ssau.CallName(p) == listNew+"PushFront", "O-3", key+"/front", pos, "inserted at the front", "new entry is not inserted with PushFront: it would not be the most recently used element")
	}
	// eviction removes Back()
	nEv := 0
	for _, fn := range allLRUFuncs(env) {
		ssau.ForEachInstr(fn, false, func(in ssa.Instruction) {
			st, ok := in.(*ssa.Store)
			if !ok || !ssau.IsIncrement(st, c12CounterOwner, "evictions") {
				return
			}
			nEv++
		})
	}
	// find the function(s) performing the capacity eviction: callees under cap test
	var victims []struct {
		fn   *ssa.Function
		call *ssa.Call
	}
	for _, ci := range caps {
		for _, then := range []bool{true, false} {
			for _, call := range evictCallsUnder(ci, then) {
				if cal := call.Common().StaticCallee(); cal != nil && env.isLRUMethod(cal) && len(call.Common().Args) < 2 {
					// a method that picks the victim itself
					victims = append(victims, struct {
						fn   *ssa.Function
						call *ssa.Call
					}{cal, call})
				} else {
					victims = append(victims, struct {
						fn   *ssa.Function
						call *ssa.Call
					}{put, call})
				}
			}
		}
	}
	for _, v := range victims {
		// inside v.fn (or at v.call when direct) the removed element must be evictList.Back()
		checkBack := func(fn *ssa.Function) {
			found := 0
			ssau.ForEachInstr(fn, false, func(in ssa.Instruction) {
				call, ok := in.(*ssa.Call)
				if !ok {
					return
				}
				var elem ssa.Value
				if cal := call.Common().StaticCallee(); cal != nil && env.isLRUMethod(cal) && env.eng.Summary(cal).Get("list.Remove").Always() && len(call.Common().Args) == 2 {
					elem = call.Common().Args[1]
				}
				for _, t := range lruTag(call) {
					if t == "list.Remove" {
						elem = call.Common().Args[1]
					}
				}
				if elem == nil {
					return
				}
				found++
				key := load.FuncKey(fn) + "#victim"
				bk, ok := elem.(*ssa.Call)
				isBack := ok && ssau.CallName(bk) == listNew+"Back" && len(bk.Common().Args) == 1 && isLRULoad(bk.Common().Args[0], "evictList")
				r.Check(isBack, "O-1", key, c.P.Pos(call.Pos()), "evicts evictList.Back()", "the evicted element is not evictList.Back(): with every touch moving elements to the front, Back is the least recently used one")
			})
			if found == 0 {
				r.Unknown("O-1", load.FuncKey(fn)+"#victim", c.P.Pos(fn.Pos()), "no removal with an identifiable element in the eviction function")
			}
		}
		if v.fn != put {
			checkBack(v.fn)
		} else {
			checkBack(put)
		}
	}
	r.Floor("O-1", "eviction sites under the capacity test", len(victims), 1)

	// NewLRUCache: capacity defaulting
	var capStore *ssa.Store
	ssau.ForEachInstr(newFn, false, func(in ssa.Instruction) {
		if st, ok := in.(*ssa.Store); ok {
			if _, ok := ssau.IsFieldAddr(st.Addr, lruType, "capacity"); ok {
				capStore = st
			}
		}
	})
	key := "cache.NewLRUCache#capacity-default"
	if capStore == nil {
		r.Unknown("O-1", key, c.P.Pos(newFn.Pos()), "no store to the capacity field found")
	} else {
		ok, detail := positiveAfterDefault(capStore.Val)
		r.Check(ok, "O-1", key, c.P.Pos(capStore.Pos()), detail, detail)
	}
}

// positiveAfterDefault recognises v = phi(param under !(param <= 0), C) with
// C > 0 — i.e. `if p <= 0 { p = C }`.
func positiveAfterDefault(v ssa.Value) (bool, string) {
	phi, ok := v.(*ssa.Phi)
	if !ok {
		if n, isc := ssau.ConstInt(v); isc && n > 0 {
			return true, "constant positive capacity"
		}
		return false, "capacity is stored without the `if capacity <= 0 { capacity = C }` default: a non-positive capacity makes every insertion evict immediately or never"
	}
	var param ssa.Value
	var cst int64
	haveC := false
	for _, e := range phi.Edges {
		if n, isc := ssau.ConstInt(e); isc {
			cst, haveC = n, true
		} else {
			param = e
		}
	}
	if !haveC || param == nil || cst <= 0 {
		return false, fmt.Sprintf("default capacity is not a positive constant (%d)", cst)
	}
	// the const edge must come from the true side of param <= 0 (or < 1)
	for i, e := range phi.Edges {
		if _, isc := ssau.ConstInt(e); !isc {
			continue
		}
		pred := phi.Block().Preds[i]
		// walk up single-pred chain to find the If
		for pred != nil {
			var iff *ssa.If
			var from *ssa.BasicBlock
			if len(pred.Preds) == 1 {
				from = pred.Preds[0]
				if len(from.Instrs) > 0 {
					iff, _ = from.Instrs[len(from.Instrs)-1].(*ssa.If)
				}
			}
			if iff == nil {
				break
			}
			op, x, y, ok := ssau.CondOf(iff.Cond)
			if ok && x == param {
				n, isc := ssau.ConstInt(y)
				then := from.Succs[0] == pred
				if !then {
					op = ssau.Negate(op)
				}
				if isc && ((op == token.LEQ && n == 0) || (op == token.LSS && n == 1) || (op == token.LSS && n == 0 && false)) {
					return true, fmt.Sprintf("non-positive capacity replaced by %d", cst)
				}
				return false, fmt.Sprintf("capacity default guard is `capacity %s %d`, not `<= 0`", op, n)
			}
			break
		}
	}
	return false, "could not relate the default constant to a `capacity <= 0` test"
}

func allLRUFuncs(env *lruEnv) []*ssa.Function {
	var all []*ssa.Function
	for _, fn := range env.c.P.RepoFuncs() {
		if env.isLRUMethod(fn) {
			all = append(all, fn)
		}
	}
	return all
}

func ctrlEquivalent(pd *ssau.PostDom, a, b *ssa.BasicBlock) bool {
	if a == b {
		return true
	}
	return (a.Dominates(b) && pd.PostDominates(b, a)) || (b.Dominates(a) && pd.PostDominates(a, b))
}

func c12Pairing(env *lruEnv, all []*ssa.Function) {
	c, r := env.c, env.c.R
	nPairs := 0
	for _, fn := range all {
		pd := ssau.NewPostDom(fn)
		var removes, deletes, pushes []*ssa.Call
		var updates []*ssa.MapUpdate
		ssau.ForEachInstr(fn, false, func(in ssa.Instruction) {
			for _, t := range lruTag(in) {
				switch t {
				case "list.Remove":
					removes = append(removes, in.(*ssa.Call))
				case "map.delete":
					deletes = append(deletes, in.(*ssa.Call))
				case "list.PushFront", "list.PushOther":
					pushes = append(pushes, in.(*ssa.Call))
				case "map.update":
					updates = append(updates, in.(*ssa.MapUpdate))
				}
			}
		})
		fk := load.FuncKey(fn)
		for i, rm := range removes {
			key := fmt.Sprintf("%s#remove-%d", fk, i+1)
			elem := rm.Common().Args[1]
			ok := false
			detail := "evictList.Remove(e) has no delete(items, e's key) on the same paths"
			for _, d := range deletes {
				if !ctrlEquivalent(pd, rm.Block(), d.Block()) {
					continue
				}
				k := d.Common().Args[1]
				base, isKey := ssau.IsFieldLoad(k, entryType, "Key")
				if isKey && entryOfElement(base) == elem {
					ok = true
				} else {
					detail = "delete(items, k) next to evictList.Remove(e) does not use the key stored in e's entry"
				}
			}
			r.Check(ok, "O-2", key, c.P.Pos(rm.Pos()), "paired with delete(items, entry.Key) of the same element", detail)
			nPairs++
		}
		for i, d := range deletes {
			key := fmt.Sprintf("%s#delete-%d", fk, i+1)
			ok := false
			for _, rm := range removes {
				if ctrlEquivalent(pd, rm.Block(), d.Block()) {
					ok = true
				}
			}
			r.Check(ok, "O-2", key, c.P.Pos(d.Pos()), "paired with evictList.Remove", "delete(items, k) without evictList.Remove on the same paths leaves a dangling list element")
			nPairs++
		}
		for i, p := range pushes {
			key := fmt.Sprintf("%s#push-%d", fk, i+1)
			ok := false
			detail := "PushFront(e) has no items[k] = e on the same paths"
			for _, u := range updates {
				if u.Value != ssa.Value(p) || !ctrlEquivalent(pd, p.Block(), u.Block()) {
					continue
				}
				// key stored in the entry == map key
				ent := ssau.Strip(p.Common().Args[1])
				same := false
				if al, isAlloc := ent.(*ssa.Alloc); isAlloc {
					for _, ref := range *al.Referrers() {
						if fa, isfa := ref.(*ssa.FieldAddr); isfa && ssau.FieldName(fa) == "Key" {
							for _, rr := range *fa.Referrers() {
								if st, isst := rr.(*ssa.Store); isst && st.Addr == ssa.Value(fa) && st.Val == u.Key {
									same = true
								}
							}
						}
					}
				}
				if same {
					ok = true
				} else {
					detail = "items[k] = e uses a key different from the one stored in the entry (removal deletes by entry.Key)"
				}
			}
			r.Check(ok, "O-2", key, c.P.Pos(p.Pos()), "paired with items[entry.Key] = element", detail)
			nPairs++
		}
		for i, u := range updates {
			key := fmt.Sprintf("%s#update-%d", fk, i+1)
			ok := false
			for _, p := range pushes {
				if u.Value == ssa.Value(p) {
					ok = true
				}
			}
			r.Check(ok, "O-2", key, c.P.Pos(u.Pos()), "stores a freshly pushed element", "items[k] is assigned something other than the element just pushed on the list")
			nPairs++
		}
	}
	r.Floor("O-2", "insert/remove pairing sites", nPairs, 4)

	// exits of every exported method: remove count == delete count, push == update
	for _, fn := range all {
		for ret, m := range env.eng.Exits(fn) {
			key := fmt.Sprintf("%s#exit@%s", load.FuncKey(fn), exitName(fn, ret))
			a, b := m.Get("list.Remove"), m.Get("map.delete")
			p, u := m.Get("list.PushFront")|0, m.Get("map.update")
			ok := a == b && p == u && m.Get("list.PushOther") == pathev.Zero
			r.Check(ok, "O-2", key, c.P.Pos(ret.Pos()), fmt.Sprintf("remove%v=delete%v push%v=update%v", a, b, p, u),
				fmt.Sprintf("map and list can get out of step: list.Remove%v map.delete%v PushFront%v map.update%v PushOther%v", a, b, p, u, m.Get("list.PushOther")))
		}
	}
	// Clear
	clr := env.methods["Clear"]
	for _, m := range env.eng.Exits(clr) {
		itemsReset := m.Get("items=new").Always()
		listReset := m.Get("list.Init").Always() || m.Get("evictList=new").Always()
		cnt := m.Get("hits=0").Always() && m.Get("misses=0").Always() && m.Get("evictions=0").Always()
		r.Check(itemsReset && listReset, "O-2", "cache.(*LRUCache).Clear#containers", c.P.Pos(clr.Pos()), "map and list both reset", "Clear does not reset both the map and the list on every path")
		r.Check(cnt, "O-5", "cache.(*LRUCache).Clear#counters", c.P.Pos(clr.Pos()), "hits, misses, evictions reset to 0", "Clear does not reset all three counters to 0")
	}
	// any further container the operations fill is emptied by Clear as well
	for _, f := range c12OtherContainers(all) {
		r.Check(c12Resets(c, clr, f, 0), "O-2", "cache.(*LRUCache).Clear#container:"+f, c.P.Pos(clr.Pos()), "reset by Clear", "the operations add to LRUCache."+f+" but Clear does not reset it: entries cleared from the map and list stay referenced there and are met again by later operations")
	}
}

// exitName names a return by the constant results it carries, else by order.
func exitName(fn *ssa.Function, ret *ssa.Return) string {
	s := ""
	for i := range ret.Results {
		v := ssau.ResultValue(ret, i)
		if cst, ok := v.(*ssa.Const); ok {
			if s != "" {
				s += ","
			}
			if cst.Value == nil {
				s += "nil"
			} else {
				s += cst.Value.String()
			}
		}
	}
	n := 0
	for _, r2 := range ssau.ReturnsOf(fn) {
		if r2 == ret {
			break
		}
		n++
	}
	if s == "" {
		return fmt.Sprintf("ret%d", n)
	}
	return fmt.Sprintf("ret%d(%s)", n, s)
}

func c12Recency(env *lruEnv, all []*ssa.Function) {
	c, r := env.c, env.c.R
	get, put := env.methods["Get"], env.methods["Put"]
	nHit := 0
	for ret, m := range env.eng.Exits(get) {
		if len(ret.Results) != 2 {
			continue
		}
		found := ssau.ResultValue(ret, 1)
		key := "cache.(*LRUCache).Get#exit:" + exitName(get, ret)
		switch {
		case ssau.IsConstBool(found, true):
			nHit++
			r.Check(m.Get("list.MoveToFront").Always(), "O-3", key, c.P.Pos(ret.Pos()), "hit moves the element to the front", "a hit does not move the element to the front on every path: it would be evicted as if unused")
		case ssau.IsConstBool(found, false):
		default:
			r.Unknown("O-3", key, c.P.Pos(ret.Pos()), "second result of Get is not a constant; cannot classify the exit as hit or miss")
		}
	}
	r.Floor("O-3", "hit exits of Get", nHit, 1)
	// MoveToFront in Get must be applied to the element looked up under key
	for _, fn := range []*ssa.Function{get, put} {
		ssau.ForEachInstr(fn, false, func(in ssa.Instruction) {
			call, ok := in.(*ssa.Call)
			if !ok {
				return
			}
			for _, t := range lruTag(call) {
				if t == "list.MoveToFront" {
					el := call.Common().Args[1]
					r.Check(isItemsLookup(el, fn.Params[1]), "O-3", load.FuncKey(fn)+"#MoveToFront-arg", c.P.Pos(call.Pos()), "moves the element found under the key", "MoveToFront is not applied to the element looked up under the method's key")
				}
			}
		})
	}
	for ret, m := range env.eng.Exits(put) {
		key := "cache.(*LRUCache).Put#exit:" + exitName(put, ret)
		r.Check(m.Get("touch").Always(), "O-3", key, c.P.Pos(ret.Pos()), "every Put path inserts at or moves to the front", "a Put path neither pushes a new element to the front nor moves the updated one there")
	}
	for _, fn := range all {
		for ret, m := range env.eng.Exits(fn) {
			if m.Get("list.MoveOther") != pathev.Zero {
				r.Bad("O-3", load.FuncKey(fn)+"#reorder", c.P.Pos(ret.Pos()), "the recency list is reordered by something other than MoveToFront")
			}
		}
	}
}

// isItemsLookup: v is the element result of c.items[key] (comma-ok or plain).
func isItemsLookup(v ssa.Value, key ssa.Value) bool {
	// through a lookup step of the cache: el := c.liveElement(key)
	if call, ok := v.(*ssa.Call); ok {
		if h := call.Common().StaticCallee(); h != nil && c12LookupStep(h) >= 0 {
			ki := c12LookupStep(h)
			return ki < len(call.Common().Args) && call.Common().Args[ki] == key
		}
		return false
	}
	if ex, ok := v.(*ssa.Extract); ok && ex.Index == 0 {
		v = ex.Tuple
	}
	lk, ok := v.(*ssa.Lookup)
	if !ok {
		return false
	}
	return isLRULoad(lk.X, "items") && lk.Index == key
}

// expiry condition classification
type expKind int

const (
	expNone expKind = iota
	expTTLPositive
	expExpired
)

// classifyExpiry recognises, normalised so that the returned bool is the
// branch side meaning "not expired / no ttl":
//
//	ttl > 0            -> (expTTLPositive, falseSideSafe)
//	since(CreatedAt) > ttl, now.Sub(CreatedAt) > ttl (also >=) -> (expExpired, falseSideSafe)
//
// c12CG is the call graph (set by c12Expiry) used to resolve a `now`
// parameter to what its callers pass.
var c12CG *callgraph.Graph

// c12IsNow: v is time.Now(), or a parameter to which every caller passes
// such a value (a clock reading taken by the caller for this operation).
func c12IsNow(v ssa.Value, d int) bool {
	if call, ok := v.(*ssa.Call); ok {
		return ssau.CallName(call) == "time.Now"
	}
	p, ok := v.(*ssa.Parameter)
	if !ok || c12CG == nil || d > 2 {
		return false
	}
	fn := p.Parent()
	idx := -1
	for i, q := range fn.Params {
		if q == p {
			idx = i
		}
	}
	node := c12CG.Nodes[fn]
	if node == nil || idx < 0 {
		return false
	}
	n := 0
	for _, e := range node.In {
		if e.Caller.Func.Synthetic != "" {
			continue
		}
		args := e.Site.Common().Args
		if idx >= len(args) || !c12IsNow(args[idx], d+1) {
			return false
		}
		n++
	}
	return n > 0
}

// c12ExpiryPreds: boolean helpers of the cache that answer exactly
// "ttl > 0 && age(CreatedAt) > ttl" for the entry they are given (filled by
// c12Expiry before the rules run).
var c12ExpiryPreds = map[*ssa.Function]bool{}

// exactExpiryPredicate: every return of h is the constant false reached only
// on a not-expired side, or the age comparison itself evaluated only where
// ttl > 0 holds (or a merge of such values).
func exactExpiryPredicate(h *ssa.Function) bool {
	if h.Signature.Results().Len() != 1 || len(h.Blocks) == 0 {
		return false
	}
	if b, ok := h.Signature.Results().At(0).Type().Underlying().(*types.Basic); !ok || b.Kind() != types.Bool {
		return false
	}
	safe := map[[2]int]bool{}   // edges on which the entry is known not expired
	ttlPos := map[[2]int]bool{} // edges on which ttl > 0 is known
	for _, i := range ssau.Ifs(h) {
		k, safeThen, _ := classifyExpiry(i.Cond)
		if k == expNone {
			continue
		}
		idx := 1
		if safeThen {
			idx = 0
		}
		safe[[2]int{i.Block().Index, idx}] = true
		if k == expTTLPositive {
			ttlPos[[2]int{i.Block().Index, 1 - idx}] = true
		}
	}
	var okVal func(v ssa.Value, blk *ssa.BasicBlock, viaSafe, viaPos bool, d int) bool
	okVal = func(v ssa.Value, blk *ssa.BasicBlock, viaSafe, viaPos bool, d int) bool {
		if ssau.IsConstBool(v, false) {
			return viaSafe || (len(safe) > 0 && !ssau.ReachableAvoidingEdges(h, blk, safe))
		}
		if k, safeThen, _ := classifyExpiry(v); k == expExpired && !safeThen {
			return viaPos || (len(ttlPos) > 0 && !ssau.ReachableAvoidingEdges(h, blk, ttlPos))
		}
		if phi, ok := v.(*ssa.Phi); ok && d < 3 {
			for i, e := range phi.Edges {
				p := phi.Block().Preds[i]
				vs, vp := false, false
				for k, sc := range p.Succs {
					if sc == phi.Block() {
						vs = vs || safe[[2]int{p.Index, k}]
						vp = vp || ttlPos[[2]int{p.Index, k}]
					}
				}
				if !okVal(e, p, vs, vp, d+1) {
					return false
				}
			}
			return true
		}
		return false
	}
	rets := ssau.ReturnsOf(h)
	for _, ret := range rets {
		if !okVal(ret.Results[0], ret.Block(), false, false, 0) {
			return false
		}
	}
	return len(rets) > 0
}

func classifyExpiry(cond ssa.Value) (kind expKind, safeThen bool, detail string) {
	if call, ok := cond.(*ssa.Call); ok {
		if h := call.Common().StaticCallee(); h != nil && c12ExpiryPreds[h] {
			return expExpired, false, ""
		}
	}
	op, x, y, ok := ssau.CondOf(cond)
	if !ok {
		return expNone, false, ""
	}
	isTTL := func(v ssa.Value) bool { return isLRULoad(v, "ttl") }
	isAge := func(v ssa.Value) (bool, string) {
		call, ok := v.(*ssa.Call)
		if !ok {
			return false, ""
		}
		a := call.Common().Args
		switch ssau.CallName(call) {
		case "time.Since":
			if _, ok := ssau.IsFieldLoad(a[0], entryType, "CreatedAt"); ok {
				return true, ""
			}
			if _, ok := ssau.IsFieldLoad(a[0], entryType, "AccessedAt"); ok {
				return false, "age is measured from AccessedAt, so a value read often never expires although it was stored longer ago than the lifetime"
			}
		case "(time.Time).Sub":
			if c12IsNow(a[0], 0) {
				if _, ok := ssau.IsFieldLoad(a[1], entryType, "CreatedAt"); ok {
					return true, ""
				}
				if _, ok := ssau.IsFieldLoad(a[1], entryType, "AccessedAt"); ok {
					return false, "age is measured from AccessedAt, so a value read often never expires although it was stored longer ago than the lifetime"
				}
			}
		}
		return false, ""
	}
	if isTTL(x) {
		if n, isc := ssau.ConstInt(y); isc && n == 0 {
			switch op {
			case token.GTR, token.NEQ:
				return expTTLPositive, false, ""
			case token.LEQ, token.EQL:
				return expTTLPositive, true, ""
			}
		}
	}
	if a, why := isAge(x); a && isTTL(y) {
		switch op {
		case token.GTR, token.GEQ:
			return expExpired, false, ""
		case token.LEQ, token.LSS:
			return expExpired, true, ""
		}
	} else if why != "" {
		return expNone, false, why
	}
	if a, why := isAge(y); a && isTTL(x) {
		switch op {
		case token.LSS, token.LEQ:
			return expExpired, false, ""
		case token.GEQ, token.GTR:
			return expExpired, true, ""
		}
	} else if why != "" {
		return expNone, false, why
	}
	return expNone, false, ""
}

func c12Expiry(env *lruEnv, all []*ssa.Function) {
	c, r := env.c, env.c.R
	get := env.methods["Get"]
	c12CG = c.P.CallGraph()
	c12ExpiryPreds = map[*ssa.Function]bool{}
	for _, fn := range allLRUFuncs(env) {
		if exactExpiryPredicate(fn) {
			c12ExpiryPreds[fn] = true
		}
	}
	cut := map[[2]int]bool{}
	nExp := 0
	var why string
	var expiredEdges [][2]*ssa.BasicBlock // (ifBlock, expired-side successor)
	for _, i := range ssau.Ifs(get) {
		k, safeThen, d := classifyExpiry(i.Cond)
		if d != "" {
			why = d
		}
		if k == expNone {
			continue
		}
		idx := 1
		if safeThen {
			idx = 0
		}
		cut[[2]int{i.Block().Index, idx}] = true
		if k == expExpired {
			nExp++
			expiredEdges = append(expiredEdges, [2]*ssa.BasicBlock{i.Block(), i.Block().Succs[1-idx]})
		}
	}
	// the lookup and the expiry test may live in a step that returns the element
	// only when it is there and has not expired (nil otherwise): the non-nil
	// side of the test of its result is then the safe side
	for _, call := range callsMatching(get, false, func(string) bool { return true }) {
		h := call.Common().StaticCallee()
		if h == nil || c12LookupStep(h) < 0 || !env.isLRUMethod(h) {
			continue
		}
		hcut := map[[2]int]bool{}
		hExp := 0
		var hExpired [][2]*ssa.BasicBlock
		for _, i := range ssau.Ifs(h) {
			k, safeThen, d := classifyExpiry(i.Cond)
			if d != "" {
				why = d
			}
			if k == expNone {
				continue
			}
			idx := 1
			if safeThen {
				idx = 0
			}
			hcut[[2]int{i.Block().Index, idx}] = true
			if k == expExpired {
				hExp++
				hExpired = append(hExpired, [2]*ssa.BasicBlock{i.Block(), i.Block().Succs[1-idx]})
			}
		}
		live := hExp > 0
		for _, ret := range ssau.ReturnsOf(h) {
			if ssau.IsNilConst(ssau.ResultValue(ret, 0)) {
				continue
			}
			if ssau.ReachableAvoidingEdges(h, ret.Block(), hcut) {
				live = false // an element can be handed back without the expiry test
			}
		}
		// the expired side removes the element and yields nil
		for _, e := range hExpired {
			for ret, m := range env.eng.From(e[1], 0) {
				key := load.FuncKey(h) + "#expired-side:" + exitName(h, ret)
				isNil := ssau.IsNilConst(ssau.ResultValue(ret, 0))
				if !isNil {
					continue // joins a live exit: reported by the reachability rule
				}
				r.Check(m.Get("list.Remove").Always(), "O-4", key, c.P.Pos(ret.Pos()), "expired entry is removed and nothing is handed back", "the expired side does not remove the entry on every path (it would be served again or leak)")
			}
		}
		if !live {
			continue
		}
		for _, i := range ssau.Ifs(get) {
			op, x, y, ok := ssau.CondOf(i.Cond)
			if !ok {
				continue
			}
			if ssau.IsNilConst(x) {
				x, y = y, x
			}
			if x != ssa.Value(call) || !ssau.IsNilConst(y) {
				continue
			}
			switch op {
			case token.NEQ:
				cut[[2]int{i.Block().Index, 0}] = true
				nExp++
			case token.EQL:
				cut[[2]int{i.Block().Index, 1}] = true
				nExp++
			}
		}
	}
	for _, ret := range ssau.ReturnsOf(get) {
		if len(ret.Results) != 2 || !ssau.IsConstBool(ssau.ResultValue(ret, 1), true) {
			continue
		}
		key := "cache.(*LRUCache).Get#exit:" + exitName(get, ret) + "/expiry"
		reach := ret.Block() == get.Blocks[0] || reachAvoidBB(get.Blocks[0], ret.Block(), cut, nil)
		d := "a hit can be returned without passing the false side of (ttl > 0 && since(CreatedAt) > ttl)"
		if why != "" {
			d += ": " + why
		}
		r.Check(nExp > 0 && !reach, "O-4", key, c.P.Pos(ret.Pos()), "hit reachable only when ttl<=0 or age<=ttl (age from CreatedAt)", d)
	}
	// expired side removes the element and ends in a miss
	for _, e := range expiredEdges {
		ms := env.eng.From(e[1], 0)
		for ret, m := range ms {
			key := "cache.(*LRUCache).Get#expired-side:" + exitName(get, ret)
			// only exits that are reachable exclusively through this side matter;
			// a join with the safe side shows as Zero in the mask and is reported
			okRemove := m.Get("list.Remove").Always()
			miss := len(ret.Results) == 2 && ssau.IsConstBool(ssau.ResultValue(ret, 1), false)
			if len(ret.Results) == 2 && ssau.IsConstBool(ssau.ResultValue(ret, 1), true) {
				// the expired side joins a hit exit: already reported by the reachability rule
				continue
			}
			r.Check(okRemove && miss, "O-4", key, c.P.Pos(ret.Pos()), "expired entry is removed and reported as a miss", "the expired side does not remove the entry on every path (it would be served again or leak)")
		}
	}
	// CreatedAt written only together with Value on the same entry
	nCreated := 0
	for _, fn := range c.P.RepoFuncs() {
		if fn.Pkg == nil || fn.Pkg.Pkg.Path() != cachePkg {
			continue
		}
		pd := ssau.NewPostDom(fn)
		ssau.ForEachInstr(fn, false, func(in ssa.Instruction) {
			st, ok := in.(*ssa.Store)
			if !ok {
				return
			}
			fa, ok := ssau.IsFieldAddr(st.Addr, entryType, "CreatedAt")
			if !ok {
				return
			}
			nCreated++
			paired := false
			ssau.ForEachInstr(fn, false, func(in2 ssa.Instruction) {
				st2, ok := in2.(*ssa.Store)
				if !ok {
					return
				}
				if fa2, ok := ssau.IsFieldAddr(st2.Addr, entryType, "Value"); ok && fa2.X == fa.X && ctrlEquivalent(pd, st.Block(), st2.Block()) {
					paired = true
				}
			})
			r.Check(paired, "O-4", load.FuncKey(fn)+"#CreatedAt-store", c.P.Pos(st.Pos()), "CreatedAt set together with the value", "CreatedAt is refreshed without storing a value: the entry's age no longer measures when its value was stored")
		})
	}
	r.Floor("O-4", "CreatedAt stores", nCreated, 1)
	// CleanupExpired: removals only under the expiry test
	sweep := env.methods["CleanupExpired"]
	cd := ssau.ControlDeps(sweep)
	nSweep := 0
	ssau.ForEachInstr(sweep, false, func(in ssa.Instruction) {
		call, ok := in.(*ssa.Call)
		if !ok {
			return
		}
		removes := false
		for _, t := range lruTag(call) {
			if t == "list.Remove" {
				removes = true
			}
		}
		if cal := call.Common().StaticCallee(); cal != nil && env.isLRUMethod(cal) && env.eng.Summary(cal).Get("list.Remove") != pathev.Zero {
			removes = true
		}
		if !removes {
			return
		}
		nSweep++
		guarded := false
		var sweepElem ssa.Value
		if len(call.Common().Args) == 2 {
			sweepElem = call.Common().Args[1]
		}
		for _, d := range ssau.TransitiveControlDeps(cd, call.Block()) {
			k, safeThen, _ := classifyExpiry(d.If().Cond)
			if k == expExpired && d.Then != safeThen {
				// and the age is that of the element being removed
				if ageElem := expiryElement(d.If().Cond); ageElem == nil || sweepElem == nil || ageElem == sweepElem {
					guarded = true
				}
			}
		}
		r.Check(guarded, "O-4", "cache.(*LRUCache).CleanupExpired#remove", c.P.Pos(call.Pos()), "removal control-dependent on age(CreatedAt) > ttl of the same element", "the sweep removes an element without the expiry test on that element holding")
	})
	r.Floor("O-4", "removals in CleanupExpired", nSweep, 1)
}

// expiryElement returns the list element whose entry's CreatedAt the
// comparison reads, if identifiable.
func expiryElement(cond ssa.Value) ssa.Value {
	if call, ok := cond.(*ssa.Call); ok {
		if h := call.Common().StaticCallee(); h != nil && c12ExpiryPreds[h] {
			for _, a := range call.Common().Args[1:] {
				if el := entryOfElement(a); el != nil {
					return el
				}
			}
			return nil
		}
	}
	_, x, y, ok := ssau.CondOf(cond)
	if !ok {
		return nil
	}
	for _, v := range []ssa.Value{x, y} {
		call, ok := v.(*ssa.Call)
		if !ok {
			continue
		}
		for _, a := range call.Common().Args {
			if base, ok := ssau.IsFieldLoad(a, entryType, "CreatedAt"); ok {
				return entryOfElement(base)
			}
		}
	}
	return nil
}

func c12Stats(env *lruEnv, all []*ssa.Function) {
	c, r := env.c, env.c.R
	get := env.methods["Get"]
	n := 0
	for ret, m := range env.eng.Exits(get) {
		if len(ret.Results) != 2 {
			continue
		}
		found := ssau.ResultValue(ret, 1)
		key := "cache.(*LRUCache).Get#exit:" + exitName(get, ret) + "/count"
		h, ms := m.Get("hits++"), m.Get("misses++")
		n++
		switch {
		case ssau.IsConstBool(found, true):
			r.Check(h.ExactlyOnce() && ms.Never(), "O-5", key, c.P.Pos(ret.Pos()), "hit: hits++ once, misses++ never", fmt.Sprintf("hit exit has hits++%v misses++%v (want {1} and {0})", h, ms))
		case ssau.IsConstBool(found, false):
			r.Check(ms.ExactlyOnce() && h.Never(), "O-5", key, c.P.Pos(ret.Pos()), "miss: misses++ once, hits++ never", fmt.Sprintf("miss exit has hits++%v misses++%v (want {0} and {1})", h, ms))
		default:
			r.Unknown("O-5", key, c.P.Pos(ret.Pos()), "exit not classifiable")
		}
	}
	r.Floor("O-5", "Get exits", n, 3)
	// no other method changes hits/misses; counters only change by ++ or =0 in Clear
	for _, fn := range all {
		name := fn.Name()
		// a resetting step that only Clear calls is part of Clear
		if obj := fn.Object(); obj != nil && !obj.Exported() && name != "Clear" {
			if node := c.P.CallGraph().Nodes[fn]; node != nil && len(node.In) > 0 {
				onlyClear := true
				for _, e := range node.In {
					if isShipped(c, e.Caller.Func) && !(e.Caller.Func.Name() == "Clear" && env.isLRUMethod(e.Caller.Func)) {
						onlyClear = false
					}
				}
				if onlyClear {
					name = "Clear"
				}
			}
		}
		for ret, m := range env.eng.Exits(fn) {
			key := fmt.Sprintf("%s#exit:%s/counter-writes", load.FuncKey(fn), exitName(fn, ret))
			bad := ""
			for _, f := range []string{"hits", "misses", "evictions"} {
				if m.Get(f+"=?") != pathev.Zero {
					bad += f + " assigned a non-zero value; "
				}
				if name != "Clear" && m.Get(f+"=0") != pathev.Zero {
					bad += f + " reset outside Clear; "
				}
			}
			if name != "Get" && (m.Get("hits++") != pathev.Zero || m.Get("misses++") != pathev.Zero) {
				bad += "hits/misses changed outside Get; "
			}
			// evictions only via Put
			if name != "Put" && fn.Object() != nil && fn.Object().Exported() && m.Get("evictions++") != pathev.Zero {
				bad += "evictions++ reachable from " + name + " (only Put evicts for capacity); "
			}
			r.Check(bad == "", "O-5", key, c.P.Pos(ret.Pos()), "counter writes as expected", bad)
		}
	}
	// evictions++ paired with a removal in a control-equivalent block
	nEv := 0
	for _, fn := range all {
		pd := ssau.NewPostDom(fn)
		ssau.ForEachInstr(fn, false, func(in ssa.Instruction) {
			st, ok := in.(*ssa.Store)
			if !ok || !ssau.IsIncrement(st, c12CounterOwner, "evictions") {
				return
			}
			nEv++
			paired := false
			ssau.ForEachInstr(fn, false, func(in2 ssa.Instruction) {
				call, ok := in2.(*ssa.Call)
				if !ok || !ctrlEquivalent(pd, st.Block(), call.Block()) {
					return
				}
				for _, t := range lruTag(call) {
					if t == "list.Remove" {
						paired = true
					}
				}
				if cal := call.Common().StaticCallee(); cal != nil && env.isLRUMethod(cal) && env.eng.Summary(cal).Get("list.Remove").ExactlyOnce() {
					paired = true
				}
			})
			if !paired {
				// counted by the caller on the word of the step that removes:
				// if _, removed := c.evictOldest(); removed { evictions++ }
				for _, d := range ssau.ControlDeps(fn)[st.Block()] {
					iff := d.If()
					if iff == nil || !d.Then {
						continue
					}
					ex, ok := iff.Cond.(*ssa.Extract)
					if !ok {
						continue
					}
					call, ok := ex.Tuple.(*ssa.Call)
					if !ok {
						continue
					}
					g := call.Common().StaticCallee()
					if g == nil || !env.isLRUMethod(g) {
						continue
					}
					exact, n := true, 0
					for ret, m := range env.eng.Exits(g) {
						if ex.Index >= len(ret.Results) {
							exact = false
							continue
						}
						n++
						v := ssau.ResultValue(ret, ex.Index)
						switch {
						case ssau.IsConstBool(v, true):
							exact = exact && m.Get("list.Remove").ExactlyOnce()
						case ssau.IsConstBool(v, false):
							exact = exact && m.Get("list.Remove") == pathev.Zero
						default:
							exact = false
						}
					}
					// nothing else is removed between the step and the count
					if exact && n > 0 && call.Block().Dominates(st.Block()) {
						paired = true
					}
				}
			}
			r.Check(paired, "O-5", load.FuncKey(fn)+"#evictions++", c.P.Pos(st.Pos()), "counted exactly where an element is removed", "evictions++ is not tied to a removal on the same paths")
		})
	}
	r.Floor("O-5", "evictions++ sites", nEv, 1)
	// In Put: on every exit, evictions++ count equals removals count
	put := env.methods["Put"]
	for ret, m := range env.eng.Exits(put) {
		key := "cache.(*LRUCache).Put#exit:" + exitName(put, ret) + "/evictions"
		r.Check(m.Get("evictions++") == m.Get("list.Remove"), "O-5", key, c.P.Pos(ret.Pos()), fmt.Sprintf("evictions++%v == removals%v", m.Get("evictions++"), m.Get("list.Remove")), fmt.Sprintf("Put removes%v elements but counts evictions++%v", m.Get("list.Remove"), m.Get("evictions++")))
	}
	// Stats and Size read the live fields
	stats := env.methods["Stats"]
	want := map[string]string{"Hits": "hits", "Misses": "misses", "Evictions": "evictions"}
	got := map[string]bool{}
	sizeOK := false
	ssau.ForEachInstr(stats, false, func(in ssa.Instruction) {
		st, ok := in.(*ssa.Store)
		if !ok {
			return
		}
		fa, ok := st.Addr.(*ssa.FieldAddr)
		if !ok || ssau.NamedOf(fa.X.Type()) != cachePkg+".Stats" {
			return
		}
		f := ssau.FieldName(fa)
		if w, ok := want[f]; ok && isLRULoad(st.Val, w) {
			got[f] = true
		}
		if f == "Size" && isLiveSize(st.Val) {
			sizeOK = true
		}
	})
	// the Stats value may be assembled by a helper of the counters: its
	// fields are read back through the call
	if len(got) == 0 && !sizeOK {
		ev := &ctxEval{c: c}
		recv := "param:" + stats.Params[0].Name()
		for _, ret := range ssau.ReturnsOf(stats) {
			fields := ev.Fields(ssau.ResultValue(ret, 0), nil)
			for f, w := range want {
				d := fields[f]
				if strings.HasPrefix(d, recv+".") && strings.HasSuffix(d, "."+w) {
					got[f] = true
				}
			}
			if fields["Size"] == "len("+recv+".items)" {
				sizeOK = true
			}
		}
	}
	for f := range want {
		r.Check(got[f], "O-5", "cache.(*LRUCache).Stats#"+f, c.P.Pos(stats.Pos()), "reads the live counter", "Stats."+f+" is not the live "+want[f]+" counter")
	}
	r.Check(sizeOK, "O-5", "cache.(*LRUCache).Stats#Size", c.P.Pos(stats.Pos()), "len(items)", "Stats.Size is not the live number of entries")
	size := env.methods["Size"]
	for _, ret := range ssau.ReturnsOf(size) {
		v := ssau.ResultValue(ret, 0)
		r.Check(isLiveSize(v), "O-5", "cache.(*LRUCache).Size#result", c.P.Pos(ret.Pos()), "len(items)", "Size does not return the live number of entries")
	}
}

func isLiveSize(v ssa.Value) bool {
	call, ok := v.(*ssa.Call)
	if !ok {
		return false
	}
	a := call.Common().Args
	switch ssau.CallName(call) {
	case "builtin.len":
		return len(a) == 1 && isLRULoad(a[0], "items")
	case listNew + "Len":
		return len(a) == 1 && isLRULoad(a[0], "evictList")
	}
	return false
}

func c12Latest(env *lruEnv) {
	c, r := env.c, env.c.R
	get, put := env.methods["Get"], env.methods["Put"]
	// Get: hit result is entry.Value of items[key]
	for _, ret := range ssau.ReturnsOf(get) {
		if len(ret.Results) != 2 || !ssau.IsConstBool(ssau.ResultValue(ret, 1), true) {
			continue
		}
		v := ssau.ResultValue(ret, 0)
		base, ok := ssau.IsFieldLoad(v, entryType, "Value")
		good := ok && entryOfElement(base) != nil && isItemsLookup(entryOfElement(base), get.Params[1])
		r.Check(good, "O-6", "cache.(*LRUCache).Get#hit-value", c.P.Pos(ret.Pos()), "returns items[key]'s Entry.Value", "the hit result is not the Value field of the entry found under the key")
	}
	// Put's work may be split into helpers on the same cache (updateEntry,
	// insertEntry): a site is Put itself or such a helper together with the
	// call that passes Put's values to it
	type site struct {
		fn  *ssa.Function
		via *ssa.Call
	}
	sites := []site{{put, nil}}
	ssau.ForEachInstr(put, false, func(in ssa.Instruction) {
		if call, ok := in.(*ssa.Call); ok {
			if h := call.Common().StaticCallee(); h != nil && h != put && env.isLRUMethod(h) && len(h.Blocks) > 0 {
				sites = append(sites, site{h, call})
			}
		}
	})
	resolve := func(s site, v ssa.Value) ssa.Value {
		if s.via == nil {
			return v
		}
		for i, p := range s.fn.Params {
			if v == ssa.Value(p) && i < len(s.via.Common().Args) {
				return s.via.Common().Args[i]
			}
		}
		return v
	}
	// Put: on the exists branch the new value is stored into that entry's Value
	cdPut := ssau.ControlDeps(put)
	found := false
	for _, s := range sites {
		s := s
		ssau.ForEachInstr(s.fn, false, func(in ssa.Instruction) {
			st, ok := in.(*ssa.Store)
			if !ok {
				return
			}
			fa, ok := ssau.IsFieldAddr(st.Addr, entryType, "Value")
			if !ok {
				return
			}
			el := entryOfElement(fa.X)
			if el == nil || !isItemsLookup(resolve(s, el), put.Params[1]) {
				return
			}
			if resolve(s, st.Val) != ssa.Value(put.Params[2]) {
				return
			}
			// control dependent on the lookup's ok being true
			blk := st.Block()
			if s.via != nil {
				blk = s.via.Block()
			}
			for _, d := range ssau.TransitiveControlDeps(cdPut, blk) {
				if ex, ok := d.If().Cond.(*ssa.Extract); ok && ex.Index == 1 && d.Then {
					if lk, ok := ex.Tuple.(*ssa.Lookup); ok && isLRULoad(lk.X, "items") {
						found = true
					}
				}
			}
		})
	}
	r.Check(found, "O-6", "cache.(*LRUCache).Put#update-value", c.P.Pos(put.Pos()), "existing key: entry.Value = value", "Put on an existing key does not store the new value into the entry Get reads")
	// Put: new entry carries key and value parameters
	okNew := false
	for _, s := range sites {
		s := s
		ssau.ForEachInstr(s.fn, false, func(in ssa.Instruction) {
			call, ok := in.(*ssa.Call)
			if !ok || ssau.CallName(call) != listNew+"PushFront" {
				return
			}
			al, ok := ssau.Strip(call.Common().Args[1]).(*ssa.Alloc)
			if !ok {
				return
			}
			var kOK, vOK bool
			for _, ref := range *al.Referrers() {
				fa, ok := ref.(*ssa.FieldAddr)
				if !ok {
					continue
				}
				for _, rr := range *fa.Referrers() {
					st, ok := rr.(*ssa.Store)
					if !ok || st.Addr != ssa.Value(fa) {
						continue
					}
					switch ssau.FieldName(fa) {
					case "Key":
						kOK = resolve(s, st.Val) == ssa.Value(put.Params[1])
					case "Value":
						vOK = resolve(s, st.Val) == ssa.Value(put.Params[2])
					}
				}
			}
			okNew = okNew || (kOK && vOK)
		})
	}
	r.Check(okNew, "O-6", "cache.(*LRUCache).Put#new-entry", c.P.Pos(put.Pos()), "new entry stores the key and value parameters", "the entry pushed by Put does not carry Put's key and value")
	_ = types.Typ
}

// c12OtherContainers: fields of LRUCache other than items/evictList that hold
// a container (map, slice, list) and that some method adds to.
func c12OtherContainers(all []*ssa.Function) []string {
	seen := map[string]bool{}
	for _, fn := range all {
		ssau.ForEachInstr(fn, true, func(in ssa.Instruction) {
			fa, ok := in.(*ssa.FieldAddr)
			if !ok || ssau.FieldOwner(fa) != lruType {
				return
			}
			name := ssau.FieldName(fa)
			if name == "items" || name == "evictList" {
				return
			}
			et := fa.Type().Underlying().(*types.Pointer).Elem()
			isList := strings.HasSuffix(et.String(), "container/list.List")
			switch et.Underlying().(type) {
			case *types.Map, *types.Slice:
			default:
				if !isList {
					return
				}
			}
			for _, ref := range *fa.Referrers() {
				switch x := ref.(type) {
				case *ssa.Store:
					if x.Addr == fa && fn.Name() != "Clear" {
						if _, isSlice := et.Underlying().(*types.Slice); isSlice {
							seen[name] = true // append and store back
						}
					}
				case *ssa.UnOp:
					for _, r2 := range *x.Referrers() {
						if mu, ok := r2.(*ssa.MapUpdate); ok && mu.Map == x {
							seen[name] = true
						}
						if call := ssau.AsCall(r2); call != nil {
							n := ssau.CallName(call)
							if strings.HasPrefix(n, listNew+"Push") || strings.HasPrefix(n, listNew+"Insert") {
								seen[name] = true
							}
						}
					}
				}
			}
		})
	}
	var out []string
	for f := range seen {
		out = append(out, f)
	}
	sort.Strings(out)
	return out
}

// c12Resets: fn (or an LRUCache helper it calls) stores to the field, calls
// Init on it, or clears it with the builtin.
func c12Resets(c *Ctx, fn *ssa.Function, field string, d int) bool {
	if fn == nil || d > 3 {
		return false
	}
	found := false
	ssau.ForEachInstr(fn, true, func(in ssa.Instruction) {
		if fa, ok := in.(*ssa.FieldAddr); ok && ssau.FieldOwner(fa) == lruType && ssau.FieldName(fa) == field {
			for _, ref := range *fa.Referrers() {
				switch x := ref.(type) {
				case *ssa.Store:
					if x.Addr == fa {
						found = true
					}
				case *ssa.UnOp:
					for _, r2 := range *x.Referrers() {
						if call := ssau.AsCall(r2); call != nil {
							n := ssau.CallName(call)
							if n == listNew+"Init" || n == "builtin.clear" {
								found = true
							}
						}
					}
				}
			}
		}
		if call := ssau.AsCall(in); call != nil && !found {
			if cal := call.Common().StaticCallee(); cal != nil && (&lruEnv{}).isLRUMethod(cal) && cal != fn {
				if c12Resets(c, cal, field, d+1) {
					found = true
				}
			}
		}
	})
	return found
}

// c12LookupStep: h is a method of the cache whose every non-nil result is the
// element found in items under one of its parameters; returns that
// parameter's index (-1 when h is not such a step).
func c12LookupStep(h *ssa.Function) int {
	if h == nil || h.Blocks == nil || h.Signature.Recv() == nil || ssau.NamedOf(h.Signature.Recv().Type()) != lruType || h.Signature.Results().Len() != 1 {
		return -1
	}
	if !strings.HasSuffix(h.Signature.Results().At(0).Type().String(), "container/list.Element") {
		return -1
	}
	ki := -1
	for _, ret := range ssau.ReturnsOf(h) {
		v := ssau.ResultValue(ret, 0)
		if ssau.IsNilConst(v) {
			continue
		}
		ex, ok := v.(*ssa.Extract)
		if !ok || ex.Index != 0 {
			return -1
		}
		lk, ok := ex.Tuple.(*ssa.Lookup)
		if !ok || !isLRULoad(lk.X, "items") {
			return -1
		}
		p, ok := lk.Index.(*ssa.Parameter)
		if !ok {
			return -1
		}
		i := paramIdx(h, p)
		if i < 0 || (ki >= 0 && ki != i) {
			return -1
		}
		ki = i
	}
	return ki
}
