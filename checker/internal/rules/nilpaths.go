package rules

import (
	"go/token"

	"golang.org/x/tools/go/ssa"

	"wtfverif/checker/internal/ssau"
)

// nilpaths: a small path-sensitive evaluation of "is this error nil here" for
// code written with one accumulating error variable:
//
//	err := a()
//	if err == nil { err = b() }
//	if cerr := c(); err == nil { err = cerr }
//	return err
//
// The variable is a chain of phis and the tests look at the phis, not at the
// results of the calls, so edge cuts on a call's own error say nothing. The
// explorer walks the paths of one function, resolving every phi to the value
// that flowed in along the path and following a nil test only to the side
// the facts gathered on the path allow.

const (
	nlUnknown int8 = iota
	nlNonNil
	nlNil
)

type nilState struct {
	b     *ssa.BasicBlock
	facts map[ssa.Value]int8
	alias map[*ssa.Phi]ssa.Value
	// cells: what a local variable that lives in memory (a named result, a
	// variable captured by a closure that only reads it) holds on this path;
	// loads: the value each load of such a variable yielded
	cells map[*ssa.Alloc]ssa.Value
	loads map[*ssa.UnOp]ssa.Value
}

func (s *nilState) resolve(v ssa.Value) ssa.Value {
	for i := 0; i < 16; i++ {
		switch x := v.(type) {
		case *ssa.Phi:
			a, ok := s.alias[x]
			if !ok {
				return v
			}
			v = a
		case *ssa.UnOp:
			a, ok := s.loads[x]
			if !ok {
				return v
			}
			v = a
		case *ssa.ChangeInterface:
			v = x.X
		default:
			return v
		}
	}
	return v
}

func (s *nilState) nilness(v ssa.Value) int8 {
	v = s.resolve(v)
	if ssau.IsNilConst(v) {
		return nlNil
	}
	if f, ok := s.facts[v]; ok {
		return f
	}
	switch x := v.(type) {
	case *ssa.Call:
		if errorConstructor(x, 0) {
			return nlNonNil
		}
	case *ssa.MakeInterface:
		if _, isPtr := x.X.(*ssa.Alloc); isPtr {
			return nlNonNil
		}
	}
	return nlUnknown
}

func (s *nilState) clone(b *ssa.BasicBlock) *nilState {
	n := &nilState{b: b, facts: make(map[ssa.Value]int8, len(s.facts)+1), alias: make(map[*ssa.Phi]ssa.Value, len(s.alias)+2),
		cells: make(map[*ssa.Alloc]ssa.Value, len(s.cells)), loads: make(map[*ssa.UnOp]ssa.Value, len(s.loads))}
	for k, v := range s.facts {
		n.facts[k] = v
	}
	for k, v := range s.alias {
		n.alias[k] = v
	}
	for k, v := range s.cells {
		n.cells[k] = v
	}
	for k, v := range s.loads {
		n.loads[k] = v
	}
	return n
}

// nilPaths explores every path from `from` (the instructions after `after`
// when it is set, otherwise the whole block) and calls atReturn for each
// return reached, with the facts of that path. It answers false when some
// call of atReturn did, or when the exploration had to be abandoned.
func nilPaths(from *ssa.BasicBlock, init map[ssa.Value]int8, atReturn func(ret *ssa.Return, s *nilState) bool) bool {
	start := &nilState{b: from, facts: map[ssa.Value]int8{}, alias: map[*ssa.Phi]ssa.Value{}, cells: map[*ssa.Alloc]ssa.Value{}, loads: map[*ssa.UnOp]ssa.Value{}}
	for k, v := range init {
		start.facts[k] = v
	}
	visits := map[[2]int]int{}
	budget := 4000
	var run func(s *nilState) bool
	run = func(s *nilState) bool {
		budget--
		if budget < 0 {
			return false
		}
		b := s.b
		if len(b.Instrs) == 0 {
			return true
		}
		for _, in := range b.Instrs {
			switch x := in.(type) {
			case *ssa.Store:
				if al, ok := x.Addr.(*ssa.Alloc); ok && trackedCell(al) {
					s.cells[al] = s.resolve(x.Val)
				}
			case *ssa.UnOp:
				if al, ok := x.X.(*ssa.Alloc); ok && x.Op == token.MUL {
					if v, known := s.cells[al]; known {
						s.loads[x] = v
					}
				}
			}
		}
		switch last := b.Instrs[len(b.Instrs)-1].(type) {
		case *ssa.Return:
			return atReturn(last, s)
		case *ssa.If:
			only := -1
			var learn ssa.Value
			learnNilOnTrue := false
			if bo, ok := last.Cond.(*ssa.BinOp); ok && (bo.Op == token.EQL || bo.Op == token.NEQ) {
				var x ssa.Value
				if ssau.IsNilConst(bo.Y) {
					x = bo.X
				} else if ssau.IsNilConst(bo.X) {
					x = bo.Y
				}
				if x != nil {
					switch s.nilness(x) {
					case nlNil:
						if bo.Op == token.EQL {
							only = 0
						} else {
							only = 1
						}
					case nlNonNil:
						if bo.Op == token.EQL {
							only = 1
						} else {
							only = 0
						}
					default:
						learn, learnNilOnTrue = s.resolve(x), bo.Op == token.EQL
					}
				}
			}
			for k, sc := range b.Succs {
				if only >= 0 && k != only {
					continue
				}
				n := enter(s, b, sc)
				if learn != nil {
					if (k == 0) == learnNilOnTrue {
						n.facts[learn] = nlNil
					} else {
						n.facts[learn] = nlNonNil
					}
				}
				key := [2]int{b.Index, k}
				visits[key]++
				if visits[key] > 64 {
					return false
				}
				if !run(n) {
					return false
				}
			}
			return true
		default:
			for k, sc := range b.Succs {
				key := [2]int{b.Index, k}
				visits[key]++
				if visits[key] > 64 {
					return false
				}
				if !run(enter(s, b, sc)) {
					return false
				}
			}
			return true
		}
	}
	return run(start)
}

// enter: the state on arrival in sc from b: the phis of sc take the values
// that flow in along this edge.
func enter(s *nilState, b, sc *ssa.BasicBlock) *nilState {
	n := s.clone(sc)
	idx := -1
	for i, p := range sc.Preds {
		if p == b {
			idx = i
		}
	}
	if idx < 0 {
		return n
	}
	vals := map[*ssa.Phi]ssa.Value{}
	for _, in := range sc.Instrs {
		phi, ok := in.(*ssa.Phi)
		if !ok {
			break
		}
		if idx < len(phi.Edges) {
			vals[phi] = s.resolve(phi.Edges[idx])
		}
	}
	for p, v := range vals {
		if v == ssa.Value(p) {
			delete(n.alias, p)
			continue
		}
		n.alias[p] = v
	}
	return n
}

// failureReachesCaller: whenever call fails (its error is not nil), every
// return that control can still reach hands back a non-nil error.
func failureReachesCaller(call *ssa.Call) bool {
	fn := call.Parent()
	ei := errorIndex(fn)
	ev := errValue(call)
	if ei < 0 || ev == nil {
		return false
	}
	return nilPaths(call.Block(), map[ssa.Value]int8{ev: nlNonNil}, func(ret *ssa.Return, s *nilState) bool {
		if ei >= len(ret.Results) {
			return false
		}
		return s.nilness(ssau.ResultValue(ret, ei)) == nlNonNil || s.nilness(ret.Results[ei]) == nlNonNil
	})
}

// nilOnlyAfterSuccess: every return of fn whose error can be nil either hands
// back the error of call itself or lies on a path on which that error was
// found nil.
func nilOnlyAfterSuccess(fn *ssa.Function, call *ssa.Call) bool {
	ei := errorIndex(fn)
	ev := errValue(call)
	if ei < 0 || ev == nil || len(fn.Blocks) == 0 {
		return false
	}
	seenSuccess := false
	ok := nilPaths(fn.Blocks[0], nil, func(ret *ssa.Return, s *nilState) bool {
		if ei >= len(ret.Results) {
			return false
		}
		rv := s.resolve(ret.Results[ei])
		switch {
		case s.nilness(rv) == nlNonNil:
			return true
		case rv == ev:
			seenSuccess = true
			return true
		case s.nilness(rv) == nlNil:
			if s.facts[ev] == nlNil {
				seenSuccess = true
				return true
			}
		}
		return false
	})
	return ok && seenSuccess
}

// trackedCell: al is a local variable in memory that only this function
// writes: every use is a load, a store to it, or its capture by a function
// literal that never stores to it (a deferred clean-up that reads the error).
func trackedCell(al *ssa.Alloc) bool {
	for _, ref := range *al.Referrers() {
		switch x := ref.(type) {
		case *ssa.Store:
			if x.Addr != ssa.Value(al) {
				return false // its address escapes
			}
		case *ssa.UnOp, *ssa.DebugRef:
		case *ssa.MakeClosure:
			g, _ := x.Fn.(*ssa.Function)
			if g == nil {
				return false
			}
			for i, bnd := range x.Bindings {
				if bnd != ssa.Value(al) || i >= len(g.FreeVars) {
					continue
				}
				for _, r2 := range *g.FreeVars[i].Referrers() {
					if u, ok := r2.(*ssa.UnOp); ok && u.Op == token.MUL {
						continue
					}
					return false
				}
			}
		default:
			return false
		}
	}
	return true
}
