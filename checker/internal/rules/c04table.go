package rules

import (
	"go/token"

	"golang.org/x/tools/go/ssa"

	"wtfverif/checker/internal/ssau"
)

// The alias rules of the platform families can be held as data: a
// package-level map from the platform name to a record of alias strings,
//
//	var table = map[string]variants{"linux": {aliases: []string{"unix"}, prefix: "linux"}, ...}
//
// consulted as  v, ok := table[current]  and compared field by field with the
// tag. The rules below read such a table off the initialiser of the variable.

// c04TableRef: v is (an element of) field `field` of the record found in the
// package-level map g under some key: table[k].field or one element of it.
type c04TableRef struct {
	g     *ssa.Global
	field string // "" when the map's values are the strings (or string lists) themselves
}

// c04TableOf traces v back to a lookup in a package-level map.
func c04TableOf(v ssa.Value, d int) (ref c04TableRef, ok bool) {
	if d > 8 || v == nil {
		return ref, false
	}
	switch x := v.(type) {
	case *ssa.ChangeType:
		return c04TableOf(x.X, d+1)
	case *ssa.Extract:
		if x.Index == 0 {
			if _, isLk := x.Tuple.(*ssa.Lookup); isLk {
				return c04TableOf(x.Tuple, d+1)
			}
		}
		// element of a ranged-over string list: extract #1 of next over ... (not a slice form)
		return ref, false
	case *ssa.Lookup:
		if u, isLoad := x.X.(*ssa.UnOp); isLoad && u.Op == token.MUL {
			if g, isG := u.X.(*ssa.Global); isG {
				return c04TableRef{g: g}, true
			}
		}
	case *ssa.Field:
		r, ok := c04TableOf(x.X, d+1)
		if ok && r.field == "" {
			r.field = ssau.FieldName(x)
			return r, true
		}
	case *ssa.UnOp:
		if x.Op != token.MUL {
			return ref, false
		}
		switch a := x.X.(type) {
		case *ssa.IndexAddr:
			// an element of a list held in the table
			return c04TableOf(a.X, d+1)
		case *ssa.FieldAddr:
			// the record spilled into a local: field of the cell's content
			if al, isAl := a.X.(*ssa.Alloc); isAl {
				for _, refI := range *al.Referrers() {
					if st, isSt := refI.(*ssa.Store); isSt && st.Addr == ssa.Value(al) {
						r, ok := c04TableOf(st.Val, d+1)
						if ok && r.field == "" {
							r.field = ssau.FieldName(a)
							return r, true
						}
					}
				}
			}
		case *ssa.Alloc:
			for _, refI := range *a.Referrers() {
				if st, isSt := refI.(*ssa.Store); isSt && st.Addr == ssa.Value(a) {
					return c04TableOf(st.Val, d+1)
				}
			}
		}
	}
	return ref, false
}

// c04TableData reads the initialiser of the package-level map g:
// key -> field name ("" for a bare value) -> the constant strings held there.
// ok is false when anything in the initialiser is not a constant.
func c04TableData(g *ssa.Global) (data map[string]map[string][]string, ok bool) {
	data = map[string]map[string][]string{}
	var initFn *ssa.Function
	for _, mem := range g.Pkg.Members {
		if fn, isFn := mem.(*ssa.Function); isFn && fn.Name() == "init" {
			initFn = fn
		}
	}
	if initFn == nil {
		return nil, false
	}
	var mk *ssa.MakeMap
	nStores := 0
	for _, fn := range append([]*ssa.Function{initFn}, initFn.AnonFuncs...) {
		ssau.ForEachInstr(fn, false, func(in ssa.Instruction) {
			if st, isSt := in.(*ssa.Store); isSt && st.Addr == ssa.Value(g) {
				nStores++
				mk, _ = st.Val.(*ssa.MakeMap)
			}
		})
	}
	// written anywhere else?
	for _, mem := range g.Pkg.Members {
		fn, isFn := mem.(*ssa.Function)
		if !isFn || fn == initFn {
			continue
		}
		ssau.ForEachInstr(fn, true, func(in ssa.Instruction) {
			switch x := in.(type) {
			case *ssa.Store:
				if x.Addr == ssa.Value(g) {
					nStores++
				}
			case *ssa.MapUpdate:
				if u, isLoad := x.Map.(*ssa.UnOp); isLoad && u.X == ssa.Value(g) {
					nStores++
				}
			}
		})
	}
	if mk == nil || nStores != 1 {
		return nil, false
	}
	ok = true
	var strs func(v ssa.Value, d int) []string
	strs = func(v ssa.Value, d int) []string {
		if d > 6 {
			ok = false
			return nil
		}
		if s, isC := ssau.ConstString(v); isC {
			return []string{s}
		}
		switch x := v.(type) {
		case *ssa.Const:
			if x.Value == nil {
				return nil // nil list
			}
		case *ssa.Slice:
			al, isAl := x.X.(*ssa.Alloc)
			if !isAl {
				break
			}
			var out []string
			for _, refI := range *al.Referrers() {
				ia, isIA := refI.(*ssa.IndexAddr)
				if !isIA {
					continue
				}
				for _, r2 := range *ia.Referrers() {
					if st, isSt := r2.(*ssa.Store); isSt && st.Addr == ssa.Value(ia) {
						out = append(out, strs(st.Val, d+1)...)
					}
				}
			}
			return out
		}
		ok = false
		return nil
	}
	for _, refI := range *mk.Referrers() {
		mu, isMU := refI.(*ssa.MapUpdate)
		if !isMU || mu.Map != ssa.Value(mk) {
			continue
		}
		key, isC := ssau.ConstString(mu.Key)
		if !isC {
			return nil, false
		}
		rec := map[string][]string{}
		if ld, isLoad := mu.Value.(*ssa.UnOp); isLoad && ld.Op == token.MUL {
			al, isAl := ld.X.(*ssa.Alloc)
			if !isAl {
				return nil, false
			}
			for _, r2 := range *al.Referrers() {
				fa, isFA := r2.(*ssa.FieldAddr)
				if !isFA {
					continue
				}
				for _, r3 := range *fa.Referrers() {
					if st, isSt := r3.(*ssa.Store); isSt && st.Addr == ssa.Value(fa) {
						if b := st.Val.Type().Underlying(); !isStringish(b) {
							continue // a field that holds no strings
						}
						rec[ssau.FieldName(fa)] = append(rec[ssau.FieldName(fa)], strs(st.Val, 0)...)
					}
				}
			}
		} else {
			rec[""] = strs(mu.Value, 0)
		}
		data[key] = rec
	}
	return data, ok && len(data) > 0
}

// isStringish: a string or a list of strings.
func isStringish(t interface{ String() string }) bool {
	s := t.String()
	return s == "string" || s == "[]string"
}
