package rules

import (
	"fmt"
	"go/token"
	"go/types"
	"sort"
	"strings"

	"golang.org/x/tools/go/ssa"

	"wtfverif/checker/internal/interval"
	"wtfverif/checker/internal/load"
	"wtfverif/checker/internal/maporder"
	"wtfverif/checker/internal/modref"
	"wtfverif/checker/internal/pathev"
	"wtfverif/checker/internal/ssau"
	"wtfverif/checker/internal/symx"
)

const nlpPkg = load.ModulePath + "/internal/nlp"

func init() {
	register(&Rule{
		Prop: "C06",
		Explanation: "Every mechanism by which turning NLP on could lose what the user typed is decided from the SSA form for all queries: (O-1) in enhanceQueryWithNLP the returned term list is a prefix extension of the lexical term list — only append(terms, x) lies between parameter and result: no reslice, sort, element store or fresh slice; (O-2) the constant A guarding that append (len(terms) < A), the default term cap K and the protected-prefix size P satisfy A <= K, K >= 10, P >= 4, all located semantically; (O-3) in scoreTerms every iteration with i < preserveCount appends its term unless it left through the duplicate test; in filterAndSortTerms every original term is appended unconditionally before any enhanced term and only the enhanced loop is budgeted; selectTopTerms is the identity up to the cap; " +
			"(O-4) GetEnhancedKeywords returns removeDuplicates(x) where the append chain building x starts with pq.Keywords, and removeDuplicates is the first-occurrence idiom (range in order, append on first sight, no sort); (O-5) nothing reachable from ProcessQuery / GetEnhancedKeywords depends on map iteration order, clocks, random sources or writable package-level state, and the readers of a finished analysis (GetEnhancedKeywords and the ProcessedQuery methods the search code calls) write, append included, only to memory they allocated; (O-6) the NLP re-rank window is max(M*Limit, floor) with M >= 1 and is applied with a guarded reslice, so at Limit >= |db| it drops nothing. The set relation between NLP-on and NLP-off results as such is NOT decided.",
		NotDecided:  []string{"result-set inclusion between NLP-on and NLP-off searches as a relation over all databases (follows from O-1..O-3 and C03 O-1, not decided directly)", "content of the word tables"},
		Assumptions: []string{"append(s, x) keeps the elements of s in place"},
		Run:         runC06,
	})
}

// prefixExt: v derives from base only through append(v', ...) (v' itself a
// prefix extension), phis and local cells.
func prefixExt(f *symx.Fn, v ssa.Value, base ssa.Value, seen map[ssa.Value]bool) (bool, string) {
	if v == base {
		return true, ""
	}
	if seen[v] {
		return true, ""
	}
	seen[v] = true
	switch x := v.(type) {
	case *ssa.Phi:
		for _, e := range x.Edges {
			if ok, why := prefixExt(f, e, base, seen); !ok {
				return false, why
			}
		}
		return true, ""
	case *ssa.Call:
		if ssau.CallName(x) == "builtin.append" {
			return prefixExt(f, x.Common().Args[0], base, seen)
		}
		return false, "the list is the result of " + ssau.CallName(x)
	case *ssa.UnOp:
		if x.Op == token.MUL {
			if vals, ok := f.ReachingStores(x); ok {
				for _, sv := range vals {
					if ok2, why := prefixExt(f, sv, base, seen); !ok2 {
						return false, why
					}
				}
				return true, ""
			}
			if p := ssau.ParamOf(x); p != nil && ssa.Value(p) == base {
				return true, ""
			}
		}
		return false, "the list is loaded from memory that is not a tracked local"
	case *ssa.Slice:
		return false, "the list is resliced (" + f.Plain(x) + "): terms can be cut off"
	case *ssa.MakeSlice:
		return false, "a fresh slice replaces the list"
	case *ssa.Const:
		return false, "the list is replaced by nil"
	}
	return false, fmt.Sprintf("unrecognised derivation %T", v)
}

func runC06(c *Ctx) {
	r := c.R
	r.Rule("O-1", "append-only merge: the term list returned by enhanceQueryWithNLP is a prefix extension of its terms parameter; the list is never sorted, resliced or overwritten")
	r.Rule("O-2", "cap relation: append guard A <= default term cap K, K >= 10, protected prefix P >= 4")
	r.Rule("O-3", "protected prefix: scoreTerms appends every term with i < preserveCount unless it is a duplicate; filterAndSortTerms appends every original term unconditionally before any enhanced term")
	r.Rule("O-4", "keywords first, no duplicates: GetEnhancedKeywords = removeDuplicates(append chain starting with pq.Keywords); removeDuplicates keeps first occurrences in order")
	r.Rule("O-5", "analysis is a function of the text: no order-sensitive map range, clock, random source or write to package-level state reachable from ProcessQuery / GetEnhancedKeywords; readers of the analysis write (store, append, sort, copy) only to memory of their own")
	r.Rule("O-6", "re-rank window: candidate cut = max(M*Limit, floor) with M >= 1, applied by guarded reslice")

	sx := symx.New(c.P.IsRepoFunc)
	c06Merge(c, sx)
	c06Protected(c, sx)
	c06Keywords(c, sx)
	c06Pure(c, sx)
	c06Window(c, sx)
}

func c06Merge(c *Ctx, sx *symx.Ctx) {
	r := c.R
	fn := c.P.Func("internal/database", "Database", "enhanceQueryWithNLP")
	fk := "database.(*Database).enhanceQueryWithNLP"
	if !r.Anchor("O-1", fk, fn != nil) {
		return
	}
	f := sx.Of(fn)
	terms := fn.Params[2]
	ti := -1
	res := fn.Signature.Results()
	for i := 0; i < res.Len(); i++ {
		if sl, ok := res.At(i).Type().Underlying().(*types.Slice); ok {
			if b, ok := sl.Elem().Underlying().(*types.Basic); ok && b.Kind() == types.String {
				ti = i
			}
		}
	}
	if ti < 0 {
		r.Unknown("O-1", fk+"#result", c.P.Pos(fn.Pos()), "no []string result")
		return
	}
	// the merge may be delegated: every exit returns helper(.., terms, ..) of a
	// repository function; then the helper and its parameter are what is examined
	for hop := 0; hop < 3; hop++ {
		var g *ssa.Function
		gi := -1
		same := true
		for _, ret := range ssau.ReturnsOf(fn) {
			call, ok := ssau.ResultValue(ret, ti).(*ssa.Call)
			if !ok {
				same = false
				break
			}
			cal := call.Common().StaticCallee()
			if cal == nil || cal.Blocks == nil || !c.P.IsRepoFunc(cal) || cal.Signature.Results().Len() != 1 || (g != nil && g != cal) {
				same = false
				break
			}
			idx := -1
			for i, a := range call.Common().Args {
				if a == ssa.Value(terms) || ssau.ParamOf(a) == terms {
					if idx >= 0 {
						same = false
					}
					idx = i
				}
			}
			if idx < 0 || (gi >= 0 && gi != idx) || idx >= len(cal.Params) {
				same = false
				break
			}
			g, gi = cal, idx
		}
		if !same || g == nil {
			break
		}
		fn, terms, ti = g, g.Params[gi], 0
		fk = load.FuncKey(g)
		f = sx.Of(fn)
	}
	for _, ret := range ssau.ReturnsOf(fn) {
		ok, why := prefixExt(f, ssau.ResultValue(ret, ti), terms, map[ssa.Value]bool{})
		r.Check(ok, "O-1", fk+"#return:"+exitName(fn, ret), c.P.Pos(ret.Pos()), "the returned terms are the lexical terms with enhanced terms appended", "the returned term list is not an append-only extension of the lexical terms: "+why)
	}
	// no sort / element store on the list
	ssau.ForEachInstr(fn, false, func(in ssa.Instruction) {
		switch x := in.(type) {
		case *ssa.Call:
			n := ssau.CallName(x)
			if (strings.HasPrefix(n, "sort.") || strings.HasPrefix(n, "slices.")) && !readOnlySliceFunc[n] {
				if len(x.Common().Args) > 0 {
					if ok, _ := prefixExt(f, ssau.Strip(x.Common().Args[0]), terms, map[ssa.Value]bool{}); ok {
						r.Bad("O-1", fk+"#reorders-terms", c.P.Pos(x.Pos()), "the term list is reordered by "+n+": the user's first four words are no longer the first four terms, which is what the term cap protects")
					}
				}
			}
		case *ssa.Store:
			if ia, ok := x.Addr.(*ssa.IndexAddr); ok {
				if ok2, _ := prefixExt(f, ia.X, terms, map[ssa.Value]bool{}); ok2 {
					r.Bad("O-1", fk+"#overwrites-term", c.P.Pos(x.Pos()), "an element of the term list is overwritten")
				}
			}
		}
	})
	// O-2: the guard of the append
	var A int64 = -1
	ssau.ForEachInstr(fn, false, func(in ssa.Instruction) {
		call, ok := in.(*ssa.Call)
		if !ok || ssau.CallName(call) != "builtin.append" {
			return
		}
		if ok2, _ := prefixExt(f, call.Common().Args[0], terms, map[ssa.Value]bool{}); !ok2 {
			return
		}
		// the bound on len(terms) in force at the append, whatever the spelling of
		// the guard (if len < A {append}; if len >= A {break}; ...): the interval
		// of every len(<term list>) expression at the append
		q := interval.New(f)
		ssau.ForEachInstr(fn, false, func(i2 ssa.Instruction) {
			lc, ok := i2.(*ssa.Call)
			if !ok || ssau.CallName(lc) != "builtin.len" {
				return
			}
			if ok2, _ := prefixExt(f, lc.Common().Args[0], terms, map[ssa.Value]bool{}); !ok2 {
				return
			}
			if g := q.GuardBound(f.E(lc), call.Block()); g.HiOK && (A < 0 || g.Hi+1 < A) {
				A = g.Hi + 1
			}
		})
	})
	if A < 0 {
		// the budget handed in as a parameter: len(terms) >= max -> leave, with
		// max the same constant at every call site of the helper
		paramConst := func(v ssa.Value) (int64, bool) {
			par, ok := v.(*ssa.Parameter)
			if !ok || par.Parent() != fn {
				return 0, false
			}
			idx := -1
			for i, q := range fn.Params {
				if q == par {
					idx = i
				}
			}
			var val int64
			n := 0
			for _, g := range shippedFuncs(c) {
				bad := false
				ssau.ForEachInstr(g, true, func(in ssa.Instruction) {
					call, ok := in.(*ssa.Call)
					if !ok || call.Common().StaticCallee() != fn || idx < 0 || idx >= len(call.Common().Args) {
						return
					}
					k, isC := ssau.ConstInt(call.Common().Args[idx])
					if !isC || (n > 0 && k != val) {
						bad = true
						return
					}
					val = k
					n++
				})
				if bad {
					return 0, false
				}
			}
			return val, n > 0
		}
		ssau.ForEachInstr(fn, false, func(in ssa.Instruction) {
			call, ok := in.(*ssa.Call)
			if !ok || ssau.CallName(call) != "builtin.append" {
				return
			}
			if ok2, _ := prefixExt(f, call.Common().Args[0], terms, map[ssa.Value]bool{}); !ok2 {
				return
			}
			for _, iff := range ssau.Ifs(fn) {
				op, x, y, okc := ssau.CondOf(iff.Cond)
				if !okc {
					continue
				}
				lc, isLen := x.(*ssa.Call)
				if !isLen || ssau.CallName(lc) != "builtin.len" {
					continue
				}
				if ok2, _ := prefixExt(f, lc.Common().Args[0], terms, map[ssa.Value]bool{}); !ok2 {
					continue
				}
				k, isK := paramConst(y)
				if !isK {
					continue
				}
				// the edge on which len(terms) < k holds
				var okEdge int
				switch op {
				case token.LSS:
					okEdge = 0
				case token.GEQ:
					okEdge = 1
				default:
					continue
				}
				cut := map[[2]int]bool{{iff.Block().Index, okEdge}: true}
				if !ssau.ReachableAvoidingEdges(fn, call.Block(), cut) && (A < 0 || k < A) {
					A = k
				}
			}
		})
	}
	su := c.P.Func("internal/database", "Database", "SearchUniversal")
	var K int64 = -1
	if su != nil {
		for _, call := range callsMatching(su, false, func(n string) bool { return strings.HasSuffix(n, "Database).selectTopTerms") }) {
			if phi, ok := call.Common().Args[2].(*ssa.Phi); ok {
				for _, e := range phi.Edges {
					if cst, ok := ssau.ConstInt(e); ok {
						K = cst
					}
				}
			}
		}
	}
	r.Check(A >= 0 && K >= 0 && A <= K, "O-2", fk+"#append-guard-within-cap", c.P.Pos(fn.Pos()), fmt.Sprintf("enhanced terms are appended only while len(terms) < %d <= default cap %d", A, K), fmt.Sprintf("enhanced terms are appended while len(terms) < %d but the default term cap is %d: appended terms can push the user's own words beyond the cap", A, K))
	r.Check(K >= 10, "O-2", "database.(*Database).SearchUniversal#default-cap-at-least-10", "", fmt.Sprintf("default cap %d", K), fmt.Sprintf("default term cap is %d (< 10)", K))
}

// reachAvoidBB: to is reachable from from avoiding the cut edges and the
// barrier blocks.
func reachAvoidBB(from, to *ssa.BasicBlock, cut map[[2]int]bool, barrier map[*ssa.BasicBlock]bool) bool {
	// states are (block, predecessor it was entered from): a block that
	// branches on a boolean merged there (x := a || b; if x) is left only on
	// the side its value has when entered from that predecessor
	type state struct {
		b    *ssa.BasicBlock
		pred *ssa.BasicBlock
	}
	seen := map[state]bool{}
	st := []state{{from, nil}}
	for len(st) > 0 {
		s := st[len(st)-1]
		st = st[:len(st)-1]
		if seen[s] {
			continue
		}
		seen[s] = true
		b := s.b
		if barrier[b] {
			continue
		}
		only := threadedSucc(b, s.pred)
		for k, sc := range b.Succs {
			if cut[[2]int{b.Index, k}] || (only >= 0 && k != only) {
				continue
			}
			if sc == to {
				return true
			}
			st = append(st, state{sc, b})
		}
	}
	return false
}

// boolKnownOnEdge: the boolean v has a known value when control passes from
// p to b: it is a constant; p branches on v itself (or on !v) and only one
// side leads to b; or p lies wholly on one side of an earlier branch on v.
func boolKnownOnEdge(v ssa.Value, p, b *ssa.BasicBlock) (val, known bool) {
	if k, ok := v.(*ssa.Const); ok {
		if k.Value == nil {
			return false, false
		}
		return k.Value.String() == "true", true
	}
	side := func(d *ssa.BasicBlock) (cond ssa.Value, neg, ok bool) {
		if len(d.Instrs) == 0 {
			return nil, false, false
		}
		iff, isIf := d.Instrs[len(d.Instrs)-1].(*ssa.If)
		if !isIf {
			return nil, false, false
		}
		cond = iff.Cond
		if u, isU := cond.(*ssa.UnOp); isU && u.Op == token.NOT {
			cond, neg = u.X, true
		}
		return cond, neg, cond == v
	}
	if _, neg, ok := side(p); ok && len(p.Succs) == 2 && p.Succs[0] != p.Succs[1] {
		if p.Succs[0] == b {
			return !neg, true
		}
		if p.Succs[1] == b {
			return neg, true
		}
	}
	for d := p.Idom(); d != nil; d = d.Idom() {
		_, neg, ok := side(d)
		if !ok || len(d.Succs) != 2 || d.Succs[0] == d.Succs[1] {
			continue
		}
		for k, sc := range d.Succs {
			if len(sc.Preds) == 1 && (sc == p || sc.Dominates(p)) {
				return (k == 0) != neg, true
			}
		}
	}
	return false, false
}

// threadedSucc: block b ends in a branch on a boolean phi of b itself and the
// value flowing in from pred is known on that edge: the index of the only
// successor that can be taken (-1: unknown, both).
func threadedSucc(b, pred *ssa.BasicBlock) int {
	if pred == nil || len(b.Instrs) == 0 {
		return -1
	}
	iff, ok := b.Instrs[len(b.Instrs)-1].(*ssa.If)
	if !ok {
		return -1
	}
	cond, neg := iff.Cond, false
	if u, isU := cond.(*ssa.UnOp); isU && u.Op == token.NOT {
		cond, neg = u.X, true
	}
	phi, ok := cond.(*ssa.Phi)
	if !ok || phi.Block() != b {
		return -1
	}
	for i, p := range b.Preds {
		if p != pred || i >= len(phi.Edges) {
			continue
		}
		val, known := boolKnownOnEdge(phi.Edges[i], p, b)
		if !known {
			return -1
		}
		if neg {
			val = !val
		}
		if val {
			return 0
		}
		return 1
	}
	return -1
}

func c06Protected(c *Ctx, sx *symx.Ctx) {
	r := c.R
	// scoreTerms
	// the function that turns the term list into scored terms, and the one
	// that cuts a scored list down to the cap: found by what they take and
	// return, not by name
	isScoredList := func(t types.Type) bool {
		sl, ok := t.Underlying().(*types.Slice)
		return ok && ssau.NamedOf(sl.Elem()) == dbPkg+".termWithScore"
	}
	isStringList := func(t types.Type) bool {
		sl, ok := t.Underlying().(*types.Slice)
		if !ok {
			return false
		}
		b, ok := sl.Elem().Underlying().(*types.Basic)
		return ok && b.Kind() == types.String
	}
	var fn, ff, ffSplit *ssa.Function
	var termsP, preserveP, listP, listSplit *ssa.Parameter
	for _, cand := range shippedFuncs(c) {
		if pk := c.P.PkgOfFunc(cand); pk == nil || pk.PkgPath != dbPkg || cand.Signature.Results().Len() != 1 || cand.Parent() != nil {
			continue
		}
		res := cand.Signature.Results().At(0).Type()
		if isScoredList(res) {
			var tp, ip *ssa.Parameter
			for _, p := range cand.Params {
				if isStringList(p.Type()) {
					tp = p
				}
				if b, ok := p.Type().Underlying().(*types.Basic); ok && b.Kind() == types.Int {
					ip = p
				}
			}
			if tp != nil && ip != nil {
				fn, termsP, preserveP = cand, tp, ip
			}
		}
		if isStringList(res) {
			var lp *ssa.Parameter
			for _, p := range cand.Params {
				if isScoredList(p.Type()) {
					lp = p
				}
			}
			readsOrig := false
			ssau.ForEachInstr(cand, lp == nil, func(in ssa.Instruction) {
				switch x := in.(type) {
				case *ssa.FieldAddr:
					readsOrig = readsOrig || ssau.FieldName(x) == "isOriginal"
				case *ssa.Field:
					readsOrig = readsOrig || ssau.FieldName(x) == "isOriginal"
				}
			})
			if lp != nil && readsOrig {
				ff, listP = cand, lp
			}
			if lp != nil && !readsOrig && ffSplit == nil {
				if sp, _ := c06ClassifierCall(c, cand, lp); sp != nil {
					ffSplit, listSplit = cand, lp
				}
			}
			if lp == nil && readsOrig && ff == nil && c06SplitCall(cand) != nil {
				ff = cand // the prefix-split form: the scored list is a local
			}
		}
	}
	// the two-list form: the scorer returns the protected terms and the rest separately
	if fn == nil && ff == nil && ffSplit == nil {
		if s2, tp, ip := c06TwoListScorer(c); s2 != nil {
			c06TwoListForm(c, s2, tp, ip)
			return
		}
	}
	fk := "database.scoreTerms"
	if fn != nil {
		fk = load.FuncKey(fn)
	}
	if r.Anchor("O-3", "database: function scoring the term list ([]string, int) -> []termWithScore", fn != nil) {
		var loop *ssau.RangeLoop
		ls := ssau.RangeLoops(fn)
		for i := range ls {
			if ls[i].Over == ssa.Value(termsP) || ssau.ParamOf(ls[i].Over) == termsP {
				loop = &ls[i]
			}
		}
		if loop == nil {
			r.Bad("O-3", fk+"#range-terms", c.P.Pos(fn.Pos()), "no range loop over the terms parameter")
		} else {
			preserve := preserveP
			cut := map[[2]int]bool{}
			barrier := map[*ssa.BasicBlock]bool{}
			for _, b := range fn.Blocks {
				if !loop.InLoop(b) {
					continue
				}
				for _, in := range b.Instrs {
					if call, ok := in.(*ssa.Call); ok && ssau.CallName(call) == "builtin.append" {
						barrier[b] = true
					}
				}
				iff, ok := b.Instrs[len(b.Instrs)-1].(*ssa.If)
				if !ok {
					continue
				}
				// duplicate test: seen[t]
				if lk, ok := iff.Cond.(*ssa.Lookup); ok {
					_ = lk
					cut[[2]int{b.Index, 0}] = true
					continue
				}
				// i < preserveCount: its false edge is a legitimate skip
				op, x, y, okc := ssau.CondOf(iff.Cond)
				if okc && x == loop.Index && y == ssa.Value(preserve) && op == token.LSS {
					cut[[2]int{b.Index, 1}] = true
				}
			}
			bad := reachAvoidBB(loop.Body, loop.Header, cut, barrier)
			r.Check(!bad && len(barrier) > 0, "O-3", fk+"#protected-terms-always-kept", c.P.Pos(loop.Body.Instrs[0].Pos()), "an iteration ends without appending only through the duplicate test or for i >= preserveCount", "a term among the first preserveCount can be dropped by something other than the duplicate test (e.g. because it is not in the index)")
		}
	}
	// filterAndSortTerms
	fk2 := "database.filterAndSortTerms"
	if ff != nil {
		fk2 = load.FuncKey(ff)
	}
	if ff == nil && ffSplit != nil {
		// classification in a helper returning (originals, enhanced)
		fk2 = load.FuncKey(ffSplit)
		ok, why := c06ClassifierForm(c, ffSplit, listSplit)
		r.Check(ok, "O-3", fk2+"#every-original-kept", c.P.Pos(ffSplit.Pos()), "the terms of every original item are appended first, unconditionally", why)
	} else if ff != nil && listP == nil {
		// prefix-split form
		ok, why := c06PrefixSplit(c, ff, fn, termsP, preserveP)
		r.Check(ok, "O-3", fk2+"#every-original-kept", c.P.Pos(ff.Pos()), "the protected terms are a prefix of the scored list; everything before the first unprotected term is returned first", why)
	} else if r.Anchor("O-3", "database: function cutting the scored list to the cap ([]termWithScore ...) -> []string, reads isOriginal", ff != nil) {
		f := sx.Of(ff)
		ls := ssau.RangeLoops(ff)
		// the loop that appends item.term of the list built from isOriginal items
		var origLoop *ssau.RangeLoop
		var outAppends []*ssa.Call
		ssau.ForEachInstr(ff, false, func(in ssa.Instruction) {
			call, ok := in.(*ssa.Call)
			if !ok || ssau.CallName(call) != "builtin.append" {
				return
			}
			if sl, ok := call.Type().Underlying().(*types.Slice); ok {
				if b, ok := sl.Elem().Underlying().(*types.Basic); ok && b.Kind() == types.String {
					outAppends = append(outAppends, call)
				}
			}
		})
		// classification loop: items with isOriginal go to list O
		var origList ssa.Value
		ssau.ForEachInstr(ff, false, func(in ssa.Instruction) {
			call, ok := in.(*ssa.Call)
			if !ok || ssau.CallName(call) != "builtin.append" {
				return
			}
			cd := ssau.ControlDeps(ff)
			for _, d := range ssau.TransitiveControlDeps(cd, call.Block()) {
				if n, _ := lastSelector(d.If().Cond); n == "isOriginal" && d.Then {
					// the variable receiving this append: its header phi
					if phi, ok := call.Common().Args[0].(*ssa.Phi); ok {
						origList = phi
					}
				}
			}
		})
		for i := range ls {
			if origList != nil && ls[i].Over == origList {
				origLoop = &ls[i]
			}
		}
		// one-pass form: the classification loop itself appends item.term for
		// every original item, unconditionally under the isOriginal test
		var directLoop *ssau.RangeLoop
		nDirect := 0
		if origLoop == nil {
			cd := ssau.ControlDeps(ff)
			for i := range ls {
				if ls[i].IsMap || ls[i].Over == nil || ssau.ParamOf(ls[i].Over) != listP && ls[i].Over != ssa.Value(listP) {
					continue
				}
				for _, a := range outAppends {
					if !ls[i].InLoop(a.Block()) {
						continue
					}
					only := true
					under := false
					for _, d := range ssau.TransitiveControlDeps(cd, a.Block()) {
						if d.Branch == ls[i].Header {
							continue
						}
						if n, _ := lastSelector(d.If().Cond); n == "isOriginal" && d.Then {
							under = true
							continue
						}
						only = false
					}
					if only && under {
						directLoop = &ls[i]
						nDirect++
					}
				}
			}
		}
		if origLoop == nil && directLoop != nil {
			r.Check(nDirect == 1, "O-3", fk2+"#every-original-kept", c.P.Pos(directLoop.Body.Instrs[0].Pos()), "each original term is appended exactly once, under nothing but the isOriginal test", fmt.Sprintf("original terms are appended at %d places of the classification loop", nDirect))
			for i, a := range outAppends {
				if directLoop.InLoop(a.Block()) {
					continue
				}
				r.Check(directLoop.Done.Dominates(a.Block()) || directLoop.Done == a.Block(), "O-3", fmt.Sprintf("%s#enhanced-append-%d-after-originals", fk2, i+1), c.P.Pos(a.Pos()), "enhanced terms are appended only after all originals", "an enhanced term can be appended before the original terms: "+f.Plain(a))
			}
		} else if origLoop == nil {
			r.Bad("O-3", fk2+"#originals-loop", c.P.Pos(ff.Pos()), "no loop over the list of original terms found")
		} else {
			eng := pathev.New(func(in ssa.Instruction) []string {
				for _, a := range outAppends {
					if in == ssa.Instruction(a) {
						return []string{"append"}
					}
				}
				return nil
			}, nil)
			m, _, ok := eng.Between(origLoop.Body, origLoop.Header)
			r.Check(ok && m.Get("append").ExactlyOnce(), "O-3", fk2+"#every-original-kept", c.P.Pos(origLoop.Body.Instrs[0].Pos()), "each original term is appended exactly once, unconditionally", fmt.Sprintf("original terms are appended %v times per iteration (a budget or filter now applies to the user's own words)", m.Get("append")))
			// appends outside that loop come after it
			for i, a := range outAppends {
				if origLoop.InLoop(a.Block()) {
					continue
				}
				r.Check(origLoop.Done.Dominates(a.Block()) || origLoop.Done == a.Block(), "O-3", fmt.Sprintf("%s#enhanced-append-%d-after-originals", fk2, i+1), c.P.Pos(a.Pos()), "enhanced terms are appended only after all originals", "an enhanced term can be appended before the original terms: "+f.Plain(a))
			}
		}
	}
}

func c06Keywords(c *Ctx, sx *symx.Ctx) {
	r := c.R
	fn := c.P.Func("internal/nlp", "ProcessedQuery", "GetEnhancedKeywords")
	fk := "nlp.(*ProcessedQuery).GetEnhancedKeywords"
	if r.Anchor("O-4", fk, fn != nil) {
		rd := nlpPkg + ".removeDuplicates"
		for _, ret := range ssau.ReturnsOf(fn) {
			key := fk + "#return:" + exitName(fn, ret)
			call, ok := ret.Results[0].(*ssa.Call)
			if !ok || ssau.CallName(call) != rd {
				r.Bad("O-4", key, c.P.Pos(ret.Pos()), "the result is not removeDuplicates(...): the expanded term list can contain duplicates")
				continue
			}
			// the argument's append chain starts with pq.Keywords
			v := call.Common().Args[0]
			first := firstAppend(v, 0)
			good := false
			if first != nil {
				a := first.Common().Args
				if ssau.IsNilConst(a[0]) || emptyFresh(a[0]) {
					if base, ok := ssau.IsFieldLoad(a[1], nlpPkg+".ProcessedQuery", "Keywords"); ok && (base == ssa.Value(fn.Params[0]) || ssau.ParamOf(base) == fn.Params[0]) {
						good = true
					}
				}
			}
			r.Check(good, "O-4", key+":keywords-first", c.P.Pos(ret.Pos()), "the chain starts append(nil, pq.Keywords...)", "the expanded list does not begin with the user's own keywords (pq.Keywords) ahead of hints, actions and targets")
			// the chain is append-only
			okChain := appendOnly(v, 0)
			r.Check(okChain, "O-4", key+":append-only", c.P.Pos(ret.Pos()), "built by appends only", "the expanded list is reordered, resliced or rebuilt before de-duplication")
		}
	}
	rdf := c.P.Func("internal/nlp", "", "removeDuplicates")
	fk2 := "nlp.removeDuplicates"
	if r.Anchor("O-4", fk2, rdf != nil) {
		// shared with C13: range in order, append on first sight (any spelling of
		// the "seen" set: bool map, struct{} map with comma-ok, negated test)
		good, why := firstOccurrenceIdiom(rdf)
		r.Check(good, "O-4", fk2+"#first-occurrence-idiom", c.P.Pos(rdf.Pos()), "range in order; append on first sight; no sort", "removeDuplicates is not the first-occurrence idiom: "+why)
	}
}

// firstAppend returns the innermost append of an append chain.
func firstAppend(v ssa.Value, d int) *ssa.Call {
	if d > 30 {
		return nil
	}
	switch x := v.(type) {
	case *ssa.Call:
		if ssau.CallName(x) == "builtin.append" {
			if inner := firstAppend(x.Common().Args[0], d+1); inner != nil {
				return inner
			}
			return x
		}
	case *ssa.Phi:
		// conditional appends: all edges share the chain below; take the longest-lived common base
		var found *ssa.Call
		for _, e := range x.Edges {
			if fa := firstAppend(e, d+1); fa != nil {
				if found != nil && found != fa {
					return nil
				}
				found = fa
			}
		}
		return found
	}
	return nil
}

// emptyFresh: a slice made here with length zero (pre-sized or not) that is
// only appended to: as a chain start it is the same as nil.
func emptyFresh(v ssa.Value) bool {
	mk, ok := v.(*ssa.MakeSlice)
	if !ok {
		return false
	}
	z, isC := ssau.ConstInt(mk.Len)
	if !isC || z != 0 {
		return false
	}
	for _, ref := range *mk.Referrers() {
		switch r := ref.(type) {
		case *ssa.Call:
			if ssau.CallName(r) != "builtin.append" || r.Common().Args[0] != ssa.Value(mk) {
				return false
			}
		case *ssa.DebugRef, *ssa.Phi:
		default:
			return false
		}
	}
	return true
}

// appendOnly: v is built from nil by appends (and phis of such).
func appendOnly(v ssa.Value, d int) bool {
	if d > 40 {
		return false
	}
	switch x := v.(type) {
	case *ssa.Const:
		return x.Value == nil
	case *ssa.MakeSlice:
		return emptyFresh(x)
	case *ssa.Call:
		if ssau.CallName(x) == "builtin.append" {
			return appendOnly(x.Common().Args[0], d+1)
		}
	case *ssa.Phi:
		for _, e := range x.Edges {
			if !appendOnly(e, d+1) {
				return false
			}
		}
		return true
	}
	return false
}

func c06Pure(c *Ctx, sx *symx.Ctx) {
	r := c.R
	var roots []*ssa.Function
	for _, spec := range [][2]string{{"QueryProcessor", "ProcessQuery"}, {"ProcessedQuery", "GetEnhancedKeywords"}} {
		fn := c.P.Func("internal/nlp", spec[0], spec[1])
		if r.Anchor("O-5", "nlp."+spec[1], fn != nil) {
			roots = append(roots, fn)
		}
	}
	if nq := c.P.Func("internal/nlp", "", "NewQueryProcessor"); nq != nil {
		roots = append(roots, nq)
	}
	scope := reachClosure(c, roots)
	nBad, nLoops := 0, 0
	for _, fn := range scope {
		for i, l := range maporder.Classify(fn, sx) {
			nLoops++
			if sens := l.Sensitive(); len(sens) > 0 {
				nBad++
				r.Bad("O-5", fmt.Sprintf("%s#map-range-%d", load.FuncKey(fn), i+1), c.P.Pos(l.Pos()), "query analysis depends on map iteration order: "+sens[0].Kind+": "+sens[0].Detail)
			}
		}
		ssau.ForEachInstr(fn, false, func(in ssa.Instruction) {
			switch x := in.(type) {
			case *ssa.Store:
				if g, ok := x.Addr.(*ssa.Global); ok {
					nBad++
					r.Bad("O-5", fmt.Sprintf("%s#writes-global-%s", load.FuncKey(fn), g.Name()), c.P.Pos(x.Pos()), "query analysis writes package-level state: analysing the same text twice can differ")
				}
			case *ssa.MapUpdate:
				if u, ok := x.Map.(*ssa.UnOp); ok {
					if g, ok := u.X.(*ssa.Global); ok {
						nBad++
						r.Bad("O-5", fmt.Sprintf("%s#writes-global-map-%s", load.FuncKey(fn), g.Name()), c.P.Pos(x.Pos()), "query analysis writes a package-level map")
					}
				}
			case *ssa.Call:
				n := ssau.CallName(x)
				if strings.HasPrefix(n, "time.Now") || strings.HasPrefix(n, "math/rand") || strings.HasPrefix(n, "os.Getenv") {
					nBad++
					r.Bad("O-5", fmt.Sprintf("%s#%s", load.FuncKey(fn), n), c.P.Pos(x.Pos()), "query analysis consults "+n)
				}
			case *ssa.Go:
				nBad++
				r.Bad("O-5", load.FuncKey(fn)+"#goroutine", c.P.Pos(x.Pos()), "query analysis starts a goroutine")
			}
		})
	}
	if nBad == 0 {
		r.OK("O-5", "nlp#analysis-is-a-function-of-the-text", "", fmt.Sprintf("%d functions, %d map ranges: no order-sensitive effect, clock, random source, goroutine or write to package-level state", len(scope), nLoops))
	}
	r.Floor("O-5", "functions reachable from query analysis", len(scope), 20)
	c06ReadersDoNotWrite(c)
}

// c06ReadersDoNotWrite: the accessors that read a finished analysis
// (GetEnhancedKeywords and every ProcessedQuery method the search code calls)
// write only memory they allocate themselves. An append counts as a write to
// its first operand: appending to a sub-slice of one of the analysis' own
// lists overwrites the elements behind it, so the next reader sees another
// analysis than the one ProcessQuery produced.
func c06ReadersDoNotWrite(c *Ctx) {
	r := c.R
	var entries []*ssa.Function
	seen := map[*ssa.Function]bool{}
	if fn := c.P.Func("internal/nlp", "ProcessedQuery", "GetEnhancedKeywords"); fn != nil {
		entries = append(entries, fn)
		seen[fn] = true
	}
	for _, fn := range shippedFuncs(c) {
		if fn.Pkg == nil || !strings.HasSuffix(fn.Pkg.Pkg.Path(), "internal/database") {
			continue
		}
		ssau.ForEachInstr(fn, true, func(in ssa.Instruction) {
			call := ssau.AsCall(in)
			if call == nil {
				return
			}
			g := call.Common().StaticCallee()
			if g == nil || seen[g] || g.Signature.Recv() == nil || g.Blocks == nil {
				return
			}
			if ssau.NamedOf(g.Signature.Recv().Type()) == nlpPkg+".ProcessedQuery" {
				seen[g] = true
				entries = append(entries, g)
			}
		})
	}
	if len(entries) == 0 {
		return
	}
	mr := modref.New(entries, c.P.IsRepoFunc, nil)
	ws := mr.Writes()
	type agg struct {
		n   int
		bad *modref.Write
	}
	per := map[string]*agg{}
	var keys []string
	for i := range ws {
		w := &ws[i]
		k := load.FuncKey(w.Fn) + "#reader-writes:" + w.Kind
		g := per[k]
		if g == nil {
			g = &agg{}
			per[k] = g
			keys = append(keys, k)
		}
		g.n++
		if w.Shared && g.bad == nil {
			g.bad = w
		}
	}
	sort.Strings(keys)
	for _, k := range keys {
		g := per[k]
		if g.bad != nil {
			r.Bad("O-5", k, c.P.Pos(g.bad.Instr.Pos()), "reading the analysis changes it (a later reader sees another analysis than the one computed from the text): "+g.bad.Why)
		} else {
			r.OK("O-5", k, "", fmt.Sprintf("%d write site(s), all to memory the reader allocated", g.n))
		}
	}
	r.Floor("O-5", "write sites in readers of the analysis", len(ws), 10)
}

func c06Window(c *Ctx, sx *symx.Ctx) {
	r := c.R
	fn := c.P.Func("internal/database", "Database", "rerankWithNLP")
	fk := "database.(*Database).rerankWithNLP"
	if !r.Anchor("O-6", fk, fn != nil) {
		return
	}
	f := sx.Of(fn)
	// a re-ranker that returns the whole list it was given cuts nothing,
	// whatever window it blends
	if ri := resultIdx(fn); ri >= 0 {
		var listP ssa.Value
		for _, p := range fn.Params {
			if srSlice(p.Type()) {
				listP = p
			}
		}
		whole := listP != nil
		for _, ret := range ssau.ReturnsOf(fn) {
			if ssau.Strip(ssau.ResultValue(ret, ri)) != listP {
				whole = false
			}
		}
		if whole {
			r.OK("O-6", fk+"#window-multiplier", c.P.Pos(fn.Pos()), "every return hands back the whole candidate list: nothing is cut")
			return
		}
	}
	// every window the candidate list is cut to is at least the requested
	// limit: Limit itself, Limit times a constant >= 1, a larger constant that
	// takes over only where the window was found below it, max(...) with such a
	// value — computed here or in a helper given the limit
	nCuts, bad := 0, ""
	ssau.ForEachInstr(fn, false, func(in ssa.Instruction) {
		sl, ok := in.(*ssa.Slice)
		if !ok || !srSlice(sl.Type()) || sl.High == nil {
			return
		}
		nCuts++
		hi := sl.High
		if w := c06MinWithOwnLen(f, sl); w != nil {
			hi = w // list[:min(len(list), w)]: the window is w
		}
		if !c06AtLeastLimit(c, hi, nil, 0) {
			bad = f.Plain(hi)
		}
	})
	// ... or the cut is made by a prefix helper given the window
	type helperCut struct {
		call    *ssa.Call
		guarded bool
	}
	var hcuts []helperCut
	ssau.ForEachInstr(fn, false, func(in ssa.Instruction) {
		call, ok := in.(*ssa.Call)
		if !ok || !srSlice(call.Type()) {
			return
		}
		list, win, guarded := ssau.PrefixHelperWindow(call)
		if list == nil || !srSlice(list.Type()) {
			return
		}
		nCuts++
		hcuts = append(hcuts, helperCut{call, guarded})
		if !c06AtLeastLimit(c, win, nil, 0) {
			bad = f.Plain(win)
		}
	})
	r.Check(nCuts > 0 && bad == "", "O-6", fk+"#window-multiplier", c.P.Pos(fn.Pos()), "every cut keeps at least Limit candidates (Limit times a constant >= 1, raised by floors)", "the re-rank window "+bad+" is not shown to be at least the requested limit: candidates within the requested limit can be cut before re-ranking")
	// every reslice of the candidate list is guarded
	n := 0
	ssau.ForEachInstr(fn, false, func(in ssa.Instruction) {
		sl, ok := in.(*ssa.Slice)
		if !ok || !srSlice(sl.Type()) || sl.High == nil {
			return
		}
		n++
		if c06MinWithOwnLen(f, sl) != nil {
			r.OK("O-6", fmt.Sprintf("%s#window-cut-%d-guarded", fk, n), c.P.Pos(sl.Pos()), "cut at min(len(list), window): never beyond the list")
			return
		}
		// guard len(x) > High on the same values
		cut := map[[2]int]bool{}
		for _, iff := range ssau.Ifs(fn) {
			op, x, y, okc := ssau.CondOf(iff.Cond)
			if !okc {
				continue
			}
			if f.E(x) == "len("+f.E(sl.X)+")" && f.E(y) == f.E(sl.High) && (op == token.GTR || op == token.GEQ) {
				cut[[2]int{iff.Block().Index, 0}] = true
			}
		}
		r.Check(len(cut) > 0 && !ssau.ReachableAvoidingEdges(fn, sl.Block(), cut), "O-6", fmt.Sprintf("%s#window-cut-%d-guarded", fk, n), c.P.Pos(sl.Pos()), "the cut happens only when the list is longer than the window", "the candidate list is resliced without the guard len(list) > window")
	})
	for _, hc := range hcuts {
		n++
		r.Check(hc.guarded, "O-6", fmt.Sprintf("%s#window-cut-%d-guarded", fk, n), c.P.Pos(hc.call.Pos()), "cut by a helper that reslices only where the list is longer than the window", "the helper that cuts the candidate list reslices without the guard len(list) > window")
	}
	r.Floor("O-6", "candidate cuts", n, 1)
}

// c06AtLeastLimit: v >= options.Limit (for Limit >= 0): the limit itself, the
// limit times a constant >= 1, a merge whose other inputs are constants that
// arrive only where such a value was found below them, max(...) containing
// such a value, or the result of a helper of the repository in which the same
// holds for the parameter that receives the limit.
func c06AtLeastLimit(c *Ctx, v ssa.Value, isLimit func(ssa.Value) bool, d int) bool {
	if d > 6 {
		return false
	}
	lim := func(x ssa.Value) bool {
		if isLimit != nil {
			return isLimit(x)
		}
		return optLoad(x, "Limit")
	}
	if lim(v) {
		return true
	}
	switch x := v.(type) {
	case *ssa.BinOp:
		if x.Op == token.MUL {
			if k, ok := ssau.ConstFloat(x.Y); ok && k >= 1 && c06AtLeastLimit(c, x.X, isLimit, d+1) {
				return true
			}
			if k, ok := ssau.ConstFloat(x.X); ok && k >= 1 && c06AtLeastLimit(c, x.Y, isLimit, d+1) {
				return true
			}
		}
	case *ssa.Phi:
		var base []ssa.Value
		for _, e := range x.Edges {
			if _, isC := ssau.ConstFloat(e); !isC {
				if !c06AtLeastLimit(c, e, isLimit, d+1) {
					return false
				}
				base = append(base, e)
			}
		}
		if len(base) == 0 {
			return false
		}
		// constant edges: a floor that takes over only where the value was below it
		cd := ssau.ControlDeps(x.Parent())
		for i, e := range x.Edges {
			k, isC := ssau.ConstFloat(e)
			if !isC {
				continue
			}
			pred := x.Block().Preds[i]
			deps := ssau.TransitiveControlDeps(cd, pred)
			if iff, ok := pred.Instrs[len(pred.Instrs)-1].(*ssa.If); ok {
				for k2, sc := range pred.Succs {
					if sc == x.Block() {
						deps = append(deps, ssau.CtrlDep{Branch: iff.Block(), Then: k2 == 0})
					}
				}
			}
			raised := false
			for _, dp := range deps {
				op, a, b, ok := ssau.CondOf(dp.If().Cond)
				if !ok {
					continue
				}
				if !dp.Then {
					op = ssau.Negate(op)
				}
				if kk, isK := ssau.ConstFloat(a); isK {
					a, b, op = b, a, ssau.Flip(op)
					_ = kk
				}
				kk, isK := ssau.ConstFloat(b)
				if !isK || kk > k {
					continue
				}
				for _, bv := range base {
					if a == bv && (op == token.LSS || op == token.LEQ) {
						raised = true
					}
				}
			}
			if !raised {
				return false
			}
		}
		return true
	case *ssa.Call:
		n := ssau.CallName(x)
		if n == "builtin.max" || strings.HasSuffix(n, "/internal/utils.Max") {
			for _, a := range x.Common().Args {
				if c06AtLeastLimit(c, a, isLimit, d+1) {
					return true
				}
			}
			return false
		}
		g := x.Common().StaticCallee()
		if g == nil || !c.P.IsRepoFunc(g) || len(g.Blocks) == 0 {
			return false
		}
		// the parameters that receive a value >= Limit
		var ps []*ssa.Parameter
		for i, a := range x.Common().Args {
			if i < len(g.Params) && c06AtLeastLimit(c, a, isLimit, d+1) {
				ps = append(ps, g.Params[i])
			}
		}
		if len(ps) == 0 {
			return false
		}
		inner := func(y ssa.Value) bool {
			for _, p := range ps {
				if y == ssa.Value(p) || ssau.ParamOf(y) == p {
					return true
				}
			}
			return false
		}
		rets := ssau.ReturnsOf(g)
		cdg := ssau.ControlDeps(g)
		some := false
		for _, ret := range rets {
			rv := ssau.ResultValue(ret, 0)
			if k, isC := ssau.ConstFloat(rv); isC {
				// a floor returned directly: only where a value >= Limit was found below it
				raised := false
				for _, dp := range ssau.TransitiveControlDeps(cdg, ret.Block()) {
					op, a, b, ok := ssau.CondOf(dp.If().Cond)
					if !ok {
						continue
					}
					if !dp.Then {
						op = ssau.Negate(op)
					}
					if _, isK := ssau.ConstFloat(a); isK {
						a, b, op = b, a, ssau.Flip(op)
					}
					kk, isK := ssau.ConstFloat(b)
					if isK && kk <= k && (op == token.LSS || op == token.LEQ) && c06AtLeastLimit(c, a, inner, d+1) {
						raised = true
					}
				}
				if !raised {
					return false
				}
				continue
			}
			if !c06AtLeastLimit(c, rv, inner, d+1) {
				return false
			}
			some = true
		}
		return some
	}
	return false
}

// c06SplitCall: the call slices.IndexFunc(L, func(x) bool { return !x.isOriginal }) in fn.
func c06SplitCall(fn *ssa.Function) *ssa.Call {
	var out *ssa.Call
	ssau.ForEachInstr(fn, false, func(in ssa.Instruction) {
		call, ok := in.(*ssa.Call)
		if !ok || !strings.HasPrefix(ssau.CallName(call), "slices.IndexFunc") || len(call.Common().Args) != 2 {
			return
		}
		var g *ssa.Function
		switch x := call.Common().Args[1].(type) {
		case *ssa.Function:
			g = x
		case *ssa.MakeClosure:
			g, _ = x.Fn.(*ssa.Function)
		}
		if g == nil || g.Blocks == nil {
			return
		}
		for _, ret := range ssau.ReturnsOf(g) {
			not, ok := ssau.ResultValue(ret, 0).(*ssa.UnOp)
			if !ok || not.Op != token.NOT {
				return
			}
			if n, _ := lastSelector(not.X); n != "isOriginal" {
				return
			}
		}
		out = call
	})
	return out
}

// c06PrefixSplit: ff keeps the protected terms by cutting the scored list at
// the first unprotected item: split := IndexFunc(L, !isOriginal) (len(L) when
// there is none), kept := terms(L[:split]), and every result is kept extended
// by appends or the terms of the whole list. That keeps every protected term
// provided the protected items are a prefix of L, which holds when the
// scoring function sets isOriginal to (i < preserveCount) for the index i of
// its single in-order loop.
func c06PrefixSplit(c *Ctx, ff, score *ssa.Function, termsP, preserveP *ssa.Parameter) (bool, string) {
	sp := c06SplitCall(ff)
	if sp == nil {
		return false, "no cut of the scored list at the first unprotected term found"
	}
	L := sp.Common().Args[0]
	isSplit := func(v ssa.Value) bool {
		if v == ssa.Value(sp) {
			return true
		}
		phi, ok := v.(*ssa.Phi)
		if !ok {
			return false
		}
		for _, e := range phi.Edges {
			if e == ssa.Value(sp) {
				continue
			}
			if lc, ok := e.(*ssa.Call); ok && ssau.CallName(lc) == "builtin.len" && lc.Common().Args[0] == L {
				continue
			}
			return false
		}
		return true
	}
	// kept = flatten(L[:split])
	var kept *ssa.Call
	var flat *ssa.Function
	ssau.ForEachInstr(ff, false, func(in ssa.Instruction) {
		call, ok := in.(*ssa.Call)
		if !ok || len(call.Common().Args) != 1 {
			return
		}
		sl, ok := call.Common().Args[0].(*ssa.Slice)
		if !ok || sl.X != L || sl.Low != nil || sl.High == nil || !isSplit(sl.High) {
			return
		}
		if g := call.Common().StaticCallee(); g != nil && c06FlattensTerms(g) {
			kept, flat = call, g
		}
	})
	if kept == nil {
		return false, "the items before the first unprotected one (L[:split]) are not turned into terms by a plain item.term loop"
	}
	for _, ret := range ssau.ReturnsOf(ff) {
		v := ssau.ResultValue(ret, 0)
		if call, ok := v.(*ssa.Call); ok && call.Common().StaticCallee() == flat && call.Common().Args[0] == L {
			continue // the whole list
		}
		if v == ssa.Value(kept) {
			continue
		}
		chain := v
		for i := 0; i < 20; i++ {
			call, ok := chain.(*ssa.Call)
			if !ok || ssau.CallName(call) != "builtin.append" {
				break
			}
			chain = call.Common().Args[0]
		}
		if chain != ssa.Value(kept) {
			return false, "a result at " + c.P.Pos(ret.Pos()) + " is not the protected terms extended by appends"
		}
	}
	// protected items are a prefix: isOriginal = (i < preserveCount)
	if score == nil {
		return false, "the function building the scored list was not found"
	}
	var loop *ssau.RangeLoop
	ls := ssau.RangeLoops(score)
	for i := range ls {
		if ls[i].Over == ssa.Value(termsP) || ssau.ParamOf(ls[i].Over) == termsP {
			loop = &ls[i]
		}
	}
	if loop == nil {
		return false, "no loop over the term list in the scoring function"
	}
	isGuard := func(v ssa.Value) bool {
		op, x, y, ok := ssau.CondOf(v)
		return ok && op == token.LSS && x == loop.Index && y == ssa.Value(preserveP)
	}
	cd := ssau.ControlDeps(score)
	bad := ""
	n := 0
	ssau.ForEachInstr(score, false, func(in ssa.Instruction) {
		st, ok := in.(*ssa.Store)
		if !ok {
			return
		}
		fa, ok := st.Addr.(*ssa.FieldAddr)
		if !ok || ssau.FieldName(fa) != "isOriginal" {
			return
		}
		n++
		if isGuard(st.Val) {
			return
		}
		if k, ok := st.Val.(*ssa.Const); ok && k.Value != nil {
			want := k.Value.String() == "true"
			for _, d := range ssau.TransitiveControlDeps(cd, st.Block()) {
				if isGuard(d.If().Cond) && d.Then == want {
					return
				}
			}
		}
		bad = "isOriginal stored at " + c.P.Pos(st.Pos()) + " is not (i < preserveCount): protected items need not be a prefix of the list, and the cut at the first unprotected item can drop them"
	})
	if bad != "" {
		return false, bad
	}
	return n > 0, "no isOriginal store in the scoring function"
}

// c06FlattensTerms: g(list) ranges over its scored-list parameter and appends
// item.term exactly once per item, unconditionally, returning that list.
func c06FlattensTerms(g *ssa.Function) bool {
	if g == nil || g.Blocks == nil || len(g.Params) != 1 {
		return false
	}
	ls := ssau.RangeLoops(g)
	if len(ls) != 1 || ls[0].IsMap || ls[0].Over != ssa.Value(g.Params[0]) && ssau.ParamOf(ls[0].Over) != g.Params[0] {
		return false
	}
	var apps []*ssa.Call
	ssau.ForEachInstr(g, false, func(in ssa.Instruction) {
		if call, ok := in.(*ssa.Call); ok && ssau.CallName(call) == "builtin.append" {
			apps = append(apps, call)
		}
	})
	if len(apps) != 1 || !ls[0].InLoop(apps[0].Block()) {
		return false
	}
	if n, _ := lastSelector(appendedSingle(apps[0])); n != "term" {
		return false
	}
	eng := pathev.New(func(in ssa.Instruction) []string {
		if in == ssa.Instruction(apps[0]) {
			return []string{"append"}
		}
		return nil
	}, nil)
	m, _, ok := eng.Between(ls[0].Body, ls[0].Header)
	if !ok || !m.Get("append").ExactlyOnce() {
		return false
	}
	for _, ret := range ssau.ReturnsOf(g) {
		if fa := firstAppend(ssau.ResultValue(ret, 0), 0); fa != apps[0] {
			return false
		}
	}
	return true
}

// c06MinWithOwnLen: sl is list[:min(len(list), w)] (either argument order,
// builtin min or the repository's Min); returns w.
func c06MinWithOwnLen(f *symx.Fn, sl *ssa.Slice) ssa.Value {
	call, ok := sl.High.(*ssa.Call)
	if !ok || len(call.Common().Args) != 2 {
		return nil
	}
	if n := ssau.CallName(call); n != "builtin.min" && !strings.HasSuffix(n, "utils.Min") {
		return nil
	}
	a := call.Common().Args
	want := "len(" + f.E(sl.X) + ")"
	switch {
	case f.E(a[0]) == want:
		return a[1]
	case f.E(a[1]) == want:
		return a[0]
	}
	return nil
}

// c06ClassifierCall: fn calls a repository helper with its scored list lp
// (argument or receiver) that returns the items with isOriginal as one of its
// results; the call and the index of that result.
func c06ClassifierCall(c *Ctx, fn *ssa.Function, lp *ssa.Parameter) (*ssa.Call, int) {
	var out *ssa.Call
	oi := -1
	ssau.ForEachInstr(fn, false, func(in ssa.Instruction) {
		call, ok := in.(*ssa.Call)
		if !ok || out != nil {
			return
		}
		g := call.Common().StaticCallee()
		if g == nil || g.Blocks == nil || !c.P.IsRepoFunc(g) || g.Signature.Results().Len() < 2 {
			return
		}
		for i, a := range call.Common().Args {
			if (a == ssa.Value(lp) || ssau.ParamOf(a) == lp) && i < len(g.Params) {
				if k := c06OriginalsResult(g, g.Params[i]); k >= 0 {
					out, oi = call, k
				}
			}
		}
	})
	return out, oi
}

// c06OriginalsResult: g ranges over its list parameter p and appends the
// element to a list under nothing but the test item.isOriginal; the index of
// the result that is this list (-1 when g is not of that form).
func c06OriginalsResult(g *ssa.Function, p *ssa.Parameter) int {
	ls := ssau.RangeLoops(g)
	var loop *ssau.RangeLoop
	for i := range ls {
		if !ls[i].IsMap && (ls[i].Over == ssa.Value(p) || ssau.ParamOf(ls[i].Over) == p) {
			if loop != nil {
				return -1
			}
			loop = &ls[i]
		}
	}
	if loop == nil {
		return -1
	}
	cd := ssau.ControlDeps(g)
	var origApp *ssa.Call
	n := 0
	ssau.ForEachInstr(g, false, func(in ssa.Instruction) {
		call, ok := in.(*ssa.Call)
		if !ok || ssau.CallName(call) != "builtin.append" || !loop.InLoop(call.Block()) {
			return
		}
		under, only := false, true
		for _, d := range ssau.TransitiveControlDeps(cd, call.Block()) {
			if d.Branch == loop.Header {
				continue
			}
			if nm, _ := lastSelector(d.If().Cond); nm == "isOriginal" && d.Then {
				under = true
				continue
			}
			if nm, _ := lastSelector(d.If().Cond); nm == "isOriginal" && !d.Then {
				return // the other list
			}
			only = false
		}
		if under && only {
			origApp = call
			n++
		} else if under {
			n = 99
		}
	})
	if origApp == nil || n != 1 {
		return -1
	}
	// the appended element is the loop element
	el := appendedSingle(origApp)
	isElem := false
	if u, ok := el.(*ssa.UnOp); ok {
		if ia, ok := u.X.(*ssa.IndexAddr); ok && ia.Index == loop.Index {
			isElem = true
		}
		if al, ok := u.X.(*ssa.Alloc); ok {
			// item := list[i] held in a local
			for _, ref := range *al.Referrers() {
				if st, ok := ref.(*ssa.Store); ok && st.Addr == ssa.Value(al) {
					if u2, ok := st.Val.(*ssa.UnOp); ok {
						if ia, ok := u2.X.(*ssa.IndexAddr); ok && ia.Index == loop.Index {
							isElem = true
						}
					}
				}
			}
		}
	}
	if !isElem {
		return -1
	}
	reaches := func(v ssa.Value) bool {
		seen := map[ssa.Value]bool{}
		var walk func(v ssa.Value) bool
		walk = func(v ssa.Value) bool {
			if seen[v] {
				return false
			}
			seen[v] = true
			if v == ssa.Value(origApp) {
				return true
			}
			if ph, ok := v.(*ssa.Phi); ok {
				for _, e := range ph.Edges {
					if walk(e) {
						return true
					}
				}
			}
			return false
		}
		return walk(v)
	}
	out := -1
	for _, ret := range ssau.ReturnsOf(g) {
		found := -1
		for i := range ret.Results {
			if reaches(ssau.ResultValue(ret, i)) {
				found = i
			}
		}
		if found < 0 || (out >= 0 && out != found) {
			return -1
		}
		out = found
	}
	return out
}

// c06ClassifierForm: ff takes the originals from a classification helper and
// every result of ff is an append chain whose first append adds the terms of
// all of them (through a plain item.term loop) to an empty list.
func c06ClassifierForm(c *Ctx, ff *ssa.Function, lp *ssa.Parameter) (bool, string) {
	sp, oi := c06ClassifierCall(c, ff, lp)
	if sp == nil {
		return false, "no classification of the scored list found"
	}
	isOrig := func(v ssa.Value) bool {
		ex, ok := v.(*ssa.Extract)
		return ok && ex.Tuple == ssa.Value(sp) && ex.Index == oi
	}
	var ok func(v ssa.Value, d int) bool
	ok = func(v ssa.Value, d int) bool {
		if d > 20 {
			return false
		}
		switch x := v.(type) {
		case *ssa.Phi:
			for _, e := range x.Edges {
				if !ok(e, d+1) {
					return false
				}
			}
			return len(x.Edges) > 0
		case *ssa.Call:
			if ssau.CallName(x) != "builtin.append" {
				return false
			}
			a := x.Common().Args
			if fc, isCall := a[1].(*ssa.Call); isCall && len(fc.Common().Args) == 1 && isOrig(fc.Common().Args[0]) && c06FlattensTerms(fc.Common().StaticCallee()) {
				return ssau.IsNilConst(a[0]) || emptyFresh(a[0]) || c06EmptyMake(a[0])
			}
			return ok(a[0], d+1)
		}
		return false
	}
	for _, ret := range ssau.ReturnsOf(ff) {
		if !ok(ssau.ResultValue(ret, 0), 0) {
			return false, "the result at " + c.P.Pos(ret.Pos()) + " does not start with the terms of all original items: a budget or filter now applies to the user's own words"
		}
	}
	return true, ""
}

// c06EmptyMake: make([]T, 0, n).
func c06EmptyMake(v ssa.Value) bool {
	mk, ok := v.(*ssa.MakeSlice)
	if !ok {
		return false
	}
	z, isC := ssau.ConstInt(mk.Len)
	return isC && z == 0
}
