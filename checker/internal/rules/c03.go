package rules

import (
	"fmt"
	"go/token"
	"go/types"
	"sort"
	"strings"

	"golang.org/x/tools/go/ssa"

	"wtfverif/checker/internal/load"
	"wtfverif/checker/internal/pathev"
	"wtfverif/checker/internal/ssau"
	"wtfverif/checker/internal/symx"
)

func init() {
	register(&Rule{
		Prop: "C03",
		Explanation: "Numerical equality of index scores with a reference scan is not statically decidable; decided are the structural conditions under which index and scan CAN agree, for every database and history: (O-1) one tokenizer — every token list indexed for a command and the query's term list are results of the same function normalizeAndTokenize; (O-2) field tables agree — fieldTF, docLens and docLensF have the same field set F; for each f in F indexCommand counts tokens of exactly one Command text field family (raw or its lower-cased twin) under the tag f, records len of that same token list as the document length f, and the tag switch increments the field of the same name; termBM25F makes one fieldBM25 call per f whose five selectors all name f, guarded by tf.f > 0, and sums all of them; BuildUniversalIndex sums and averages every f; " +
			"(O-3) document identity — the loop index of db.Commands is the index of docLens, of the per-document table and the docID of every posting; scoring uses p.docID for the accumulator key, the filtered command and the length lookup; (O-4) df[term] is incremented exactly once per iteration over the KEYS of one document's term map; (O-5) every (re)build of the inverted index on a database that may carry a re-ranker is followed on all paths by the re-ranker/command-index rebuild, and every replacement of Database.Commands by both; (O-6) selectTopTerms returns its input when len(terms) <= cap, the default cap is 10 and the protected prefix is >= 4.",
		NotDecided:  []string{"the BM25F arithmetic itself and equality with a reference scorer", "Unicode tokenisation corner cases", "staleness after same-length in-place edits of Commands by callers outside the module"},
		Assumptions: []string{"the filter gates are the subject of C04"},
		Run:         runC03,
	})
}

var c03Families = map[string][]string{
	"cmd":  {"Command", "CommandLower"},
	"desc": {"Description", "DescriptionLower"},
	"keys": {"Keywords", "KeywordsLower"},
	"tags": {"Tags", "TagsLower"},
}

const tokenizerFn = dbPkg + ".normalizeAndTokenize"

func structFields(pk *types.Package, name string) []string {
	obj := pk.Scope().Lookup(name)
	if obj == nil {
		return nil
	}
	st, ok := obj.Type().Underlying().(*types.Struct)
	if !ok {
		return nil
	}
	var out []string
	for i := 0; i < st.NumFields(); i++ {
		out = append(out, st.Field(i).Name())
	}
	sort.Strings(out)
	return out
}

// lastSelector returns the field name selected last in v (through
// conversions): tf.cmd, idx.docLens[docID].cmd, idx.params.w.cmd -> "cmd".
func lastSelector(v ssa.Value) (string, ssa.Value) {
	for i := 0; i < 4; i++ {
		switch x := v.(type) {
		case *ssa.Convert:
			v = x.X
		case *ssa.UnOp:
			if x.Op == token.MUL {
				if fa, ok := x.X.(*ssa.FieldAddr); ok {
					return ssau.FieldName(fa), fa.X
				}
			}
			return "", nil
		case *ssa.Field:
			return ssau.FieldName(x), x.X
		default:
			return "", nil
		}
	}
	return "", nil
}

// selPath renders the access path of a value read out of nested structs and
// slices, through value copies held in registers or single-store local cells:
// idx.docLens[docID].cmd -> [param:idx docLens [param:docID] cmd], whether the
// intermediate structs are addressed in place or copied first.
func selPath(v ssa.Value, d int) []string {
	if d > 10 {
		return nil
	}
	switch x := v.(type) {
	case *ssa.Convert:
		return selPath(x.X, d+1)
	case *ssa.ChangeType:
		return selPath(x.X, d+1)
	case *ssa.Parameter:
		return []string{"param:" + x.Name()}
	case *ssa.Field:
		return append(selPath(x.X, d+1), ssau.FieldName(x))
	case *ssa.FieldAddr:
		return append(selPath(x.X, d+1), ssau.FieldName(x))
	case *ssa.IndexAddr:
		idx := "?"
		if p := selPath(x.Index, d+1); len(p) == 1 {
			idx = p[0]
		}
		return append(selPath(x.X, d+1), "["+idx+"]")
	case *ssa.Index:
		idx := "?"
		if p := selPath(x.Index, d+1); len(p) == 1 {
			idx = p[0]
		}
		return append(selPath(x.X, d+1), "["+idx+"]")
	case *ssa.UnOp:
		if x.Op == token.MUL {
			return selPath(x.X, d+1)
		}
	case *ssa.Alloc:
		// a local copy: what was stored there (once)
		var val ssa.Value
		n := 0
		for _, ref := range *x.Referrers() {
			if st, ok := ref.(*ssa.Store); ok && st.Addr == ssa.Value(x) {
				n++
				val = st.Val
			}
		}
		if n == 1 {
			return selPath(val, d+1)
		}
	}
	return nil
}

func runC03(c *Ctx) {
	r := c.R
	r.Rule("O-1", "one tokenizer: every indexed token list and the query's term list are results of normalizeAndTokenize")
	r.Rule("O-2", "field tables agree: same field set in fieldTF/docLens/docLensF; per field f one text-field family is counted under tag f with len of the same token list as its length; the tag switch increments field f; termBM25F uses f in all five selectors of one call per field and sums all; inside the per-field formula a default replaces a parameter only where that parameter is not positive; sums and averages cover every f")
	r.Rule("O-3", "document identity: one index value per document across indexCommand(&Commands[i]), docLens[i], perDoc[i] and posting.docID; scoring uses p.docID for key, command and lengths")
	r.Rule("O-4", "df once per document: df[term]++ exactly once per key of one document's term map")
	r.Rule("O-5", "rebuild pairing: every index (re)build on a database that may carry a re-ranker is followed on all paths by the re-ranker rebuild; every replacement of Commands by both rebuilds")
	r.Rule("O-6", "term cap: selectTopTerms is the identity when len(terms) <= cap; default cap 10; protected prefix >= 4")
	r.Rule("O-7", "every term scored: between the head of the loop over the term list and the walk over a term's postings (through per-term step functions) a branch passes a term over only when the index has nothing for it, or on an idf threshold whose every stored value in the program is a constant the idf cannot be below")

	pk := c.P.Pkg("internal/database")
	if !r.Anchor("O-2", "package database", pk != nil) {
		return
	}
	F := structFields(pk.Types, "fieldTF")
	for _, n := range []string{"docLens", "docLensF"} {
		g := structFields(pk.Types, n)
		r.Check(strings.Join(F, ",") == strings.Join(g, ",") && len(F) > 0, "O-2", "database."+n+"#same-fields-as-fieldTF", "", "fields "+strings.Join(g, ","), fmt.Sprintf("field sets differ: fieldTF{%s} vs %s{%s}", strings.Join(F, ","), n, strings.Join(g, ",")))
	}
	r.Floor("O-2", "index fields", len(F), 4)
	sx := symx.New(c.P.IsRepoFunc)
	c03IndexCommand(c, sx, F)
	c03TermBM25F(c, sx, F)
	c03Build(c, sx, F)
	c03Scoring(c, sx)
	c03WhoWrites(c)
	c03Rebuild(c)
	c03TermCap(c, sx)
	c03TermCoverage(c)
}

// tokenSource: L is a token list produced by normalizeAndTokenize (or an
// empty slice); returns the Command fields the tokenised text is read from.
func tokenSource(L ssa.Value, seen map[ssa.Value]bool) (fields map[string]bool, ok bool) {
	fields = map[string]bool{}
	ok = true
	var walkText func(v ssa.Value, d int)
	walkText = func(v ssa.Value, d int) {
		if d > 8 {
			ok = false
			return
		}
		switch x := v.(type) {
		case *ssa.ChangeType:
			// a field of a named list type handed on as a plain []string
			walkText(x.X, d+1)
		case *ssa.Phi:
			for _, e := range x.Edges {
				walkText(e, d+1)
			}
		case *ssa.UnOp:
			if fa, isFA := x.X.(*ssa.FieldAddr); isFA && ssau.NamedOf(fa.X.Type()) == cmdType {
				fields[ssau.FieldName(fa)] = true
				return
			}
			ok = false
		case *ssa.Call:
			if ssau.CallName(x) == "strings.Join" {
				walkText(x.Common().Args[0], d+1)
				return
			}
			// a choosing helper of the repository: every result is one of
			// its own parameters (prefer the cached lower-case text, else the raw one)
			if idx := c03ChoosesAmongParams(x.Common().StaticCallee()); len(idx) > 0 {
				for _, i := range idx {
					walkText(x.Common().Args[i], d+1)
				}
				return
			}
			ok = false
		default:
			ok = false
		}
	}
	var walk func(v ssa.Value, d int)
	walk = func(v ssa.Value, d int) {
		if seen[v] || d > 8 {
			return
		}
		seen[v] = true
		switch x := v.(type) {
		case *ssa.Phi:
			for _, e := range x.Edges {
				walk(e, d+1)
			}
		case *ssa.Call:
			if ssau.CallName(x) == tokenizerFn {
				walkText(x.Common().Args[0], 0)
				return
			}
			// a tokenizing helper of the repository: every result is nil or the
			// tokenizer applied to text made of its own parameters
			if g := x.Common().StaticCallee(); g != nil && g.Blocks != nil && g.Signature.Results().Len() == 1 && d < 6 {
				rets := ssau.ReturnsOf(g)
				good := len(rets) > 0
				for _, ret := range rets {
					rv := ssau.ResultValue(ret, 0)
					if ssau.IsNilConst(rv) {
						continue
					}
					tc, isCall := rv.(*ssa.Call)
					if !isCall || ssau.CallName(tc) != tokenizerFn {
						good = false
						break
					}
					ps, pok := c03TextParams(tc.Common().Args[0], 0)
					if !pok {
						good = false
						break
					}
					for _, pp := range ps {
						for i, q := range g.Params {
							if q == pp && i < len(x.Common().Args) {
								walkText(x.Common().Args[i], 0)
							}
						}
					}
				}
				if good {
					return
				}
			}
			ok = false
		case *ssa.Slice:
			// make([]string, 0)[:0]
			if _, isAl := x.X.(*ssa.Alloc); !isAl {
				ok = false
			}
		case *ssa.MakeSlice:
		case *ssa.Const:
		default:
			ok = false
		}
	}
	walk(L, 0)
	return
}

func c03IndexCommand(c *Ctx, sx *symx.Ctx, F []string) {
	r := c.R
	fn := c.P.Func("internal/database", "", "indexCommand")
	fk := "database.indexCommand"
	if !r.Anchor("O-2", fk, fn != nil) {
		return
	}
	loops := ssau.RangeLoops(fn)
	tagList := map[string]ssa.Value{}
	var inc *ssa.Function
	incTok := 0 // index of the token parameter of the counting function
	ssau.ForEachInstr(fn, false, func(in ssa.Instruction) {
		call, ok := in.(*ssa.Call)
		if !ok {
			return
		}
		cal := call.Common().StaticCallee()
		// the counting closure inc(tok, "tag"), or the same as a method of the
		// counts table: counts.inc(tok, "tag")
		nArgs := len(call.Common().Args)
		isClosure := cal != nil && cal.Parent() == fn && nArgs == 2
		isMethod := cal != nil && cal.Parent() == nil && cal.Blocks != nil && cal.Pkg == fn.Pkg && nArgs == 3 && cal.Signature.Recv() != nil
		if !isClosure && !isMethod {
			return
		}
		if isMethod {
			// the receiver is a map of per-field counts
			if mt, ok := call.Common().Args[0].Type().Underlying().(*types.Map); !ok || ssau.NamedOf(mt.Elem()) != dbPkg+".fieldTF" {
				return
			}
		}
		tag, ok := ssau.ConstString(call.Common().Args[nArgs-1])
		if !ok {
			if isMethod {
				return
			}
			r.Bad("O-2", fk+"#tag-constant", c.P.Pos(call.Pos()), "the field tag passed to the counting closure is not a constant")
			return
		}
		inc = cal
		incTok = nArgs - 2
		// token argument: element of the list ranged over
		var list ssa.Value
		if u, ok := call.Common().Args[nArgs-2].(*ssa.UnOp); ok {
			if ia, ok := u.X.(*ssa.IndexAddr); ok {
				for _, l := range loops {
					if l.Index == ia.Index && l.Over == ia.X {
						list = ia.X
					}
				}
			}
		}
		if list == nil {
			r.Bad("O-2", fk+"#tag:"+tag+":token", c.P.Pos(call.Pos()), "the token counted under tag "+tag+" is not the element of a range over a token list")
			return
		}
		if prev, dup := tagList[tag]; dup && prev != list {
			r.Bad("O-2", fk+"#tag:"+tag+":once", c.P.Pos(call.Pos()), "two different token lists are counted under the tag "+tag)
		}
		tagList[tag] = list
	})
	// the written-out form: in a range over a token list,
	//   e := termFreqs[t]; e.<field>++; termFreqs[t] = e
	// counts that list under <field>
	for _, l := range loops {
		if l.IsMap || l.Over == nil {
			continue
		}
		isElem := func(v ssa.Value) bool {
			u, ok := v.(*ssa.UnOp)
			if !ok {
				return false
			}
			ia, ok := u.X.(*ssa.IndexAddr)
			return ok && ia.X == l.Over && ia.Index == l.Index
		}
		ssau.ForEachInstr(fn, false, func(in ssa.Instruction) {
			st, ok := in.(*ssa.Store)
			if !ok || !l.InLoop(st.Block()) {
				return
			}
			fa, ok := st.Addr.(*ssa.FieldAddr)
			if !ok || ssau.NamedOf(fa.X.Type()) != dbPkg+".fieldTF" {
				return
			}
			cell, ok := fa.X.(*ssa.Alloc)
			if !ok {
				return
			}
			bo, ok := st.Val.(*ssa.BinOp)
			if !ok || bo.Op != token.ADD {
				return
			}
			if one, ok := ssau.ConstInt(bo.Y); !ok || one != 1 {
				return
			}
			if ld, ok := bo.X.(*ssa.UnOp); !ok || ld.X != ssa.Value(fa) && !sameFieldAddr(ld.X, fa) {
				return
			}
			// the entry is read from and written back to the map under this token
			readOK, writeOK := false, false
			for _, ref := range *cell.Referrers() {
				if s2, ok := ref.(*ssa.Store); ok && s2.Addr == ssa.Value(cell) {
					if lk, ok := s2.Val.(*ssa.Lookup); ok && isElem(lk.Index) {
						readOK = true
					}
				}
				if ld, ok := ref.(*ssa.UnOp); ok {
					for _, r2 := range *ld.Referrers() {
						if mu, ok := r2.(*ssa.MapUpdate); ok && mu.Value == ssa.Value(ld) && isElem(mu.Key) && l.InLoop(mu.Block()) {
							writeOK = true
						}
					}
				}
			}
			if !readOK || !writeOK {
				return
			}
			tag := ssau.FieldName(fa)
			if prev, dup := tagList[tag]; dup && prev != l.Over {
				r.Bad("O-2", fk+"#tag:"+tag+":once", c.P.Pos(st.Pos()), "two different token lists are counted under the field "+tag)
			}
			tagList[tag] = l.Over
		})
	}
	helperLen := map[*ssa.Call]ssa.Value{} // counting-helper call -> the list whose length it returns
	// the helper form: counts.add(tokens, func(e *fieldTF) *int { return &e.<field> })
	// where add ranges over its list parameter and increments *pick(&entry)
	// between entry := m[tok] and m[tok] = entry
	ssau.ForEachInstr(fn, false, func(in ssa.Instruction) {
		call, ok := in.(*ssa.Call)
		if !ok {
			return
		}
		cal := call.Common().StaticCallee()
		if cal == nil || cal.Parent() != nil || cal.Blocks == nil || !c.P.IsRepoFunc(cal) {
			return
		}
		li, pi := c03CountsThroughPick(cal)
		args := call.Common().Args
		if li < 0 {
			// ... or to a method of the entry that switches on a field tag
			if tl, ti, meth := c03CountsThroughTagMethod(cal); tl >= 0 {
				tbl := c03TagMethodTable(meth)
				k, isC := args[ti].(*ssa.Const)
				if tbl == nil || !isC || k.Value == nil {
					r.Bad("O-2", fk+"#tag-method", c.P.Pos(call.Pos()), "the field tag handed to the counting helper is not a constant, or the method it selects with does something else than incrementing one field per tag")
					return
				}
				tag, known := tbl[k.Value.ExactString()]
				if !known {
					r.Bad("O-2", fk+"#tag:"+k.Value.ExactString()+":unknown", c.P.Pos(call.Pos()), "tokens are counted under a tag for which the entry's method increments nothing: they are silently dropped")
					return
				}
				if prev, dup := tagList[tag]; dup && prev != args[tl] {
					r.Bad("O-2", fk+"#tag:"+tag+":once", c.P.Pos(call.Pos()), "two different token lists are counted under the field "+tag)
				}
				tagList[tag] = args[tl]
				// the helper hands back the length of the list it counted
				lenOfList := true
				for _, ret := range ssau.ReturnsOf(cal) {
					if len(ret.Results) != 1 {
						lenOfList = false
						continue
					}
					lc, ok := ret.Results[0].(*ssa.Call)
					if !ok || ssau.CallName(lc) != "builtin.len" || lc.Common().Args[0] != ssa.Value(cal.Params[tl]) {
						lenOfList = false
					}
				}
				if lenOfList {
					helperLen[call] = args[tl]
				}
				return
			}
			// ... or hands the entry to a function that increments one field
			bl, bi := c03CountsThroughBump(cal)
			if bl < 0 {
				return
			}
			tag := c03BumpedField(args[bi])
			if tag == "" {
				r.Bad("O-2", fk+"#bump-function", c.P.Pos(call.Pos()), "the function passed to the counting helper does something else than incrementing one fieldTF field of its argument")
				return
			}
			if prev, dup := tagList[tag]; dup && prev != args[bl] {
				r.Bad("O-2", fk+"#tag:"+tag+":once", c.P.Pos(call.Pos()), "two different token lists are counted under the field "+tag)
			}
			tagList[tag] = args[bl]
			return
		}
		tag := c03PickedField(args[pi])
		if tag == "" {
			r.Bad("O-2", fk+"#pick-function", c.P.Pos(call.Pos()), "the field-selecting function passed to the counting helper does not return the address of one fieldTF field of its argument")
			return
		}
		if prev, dup := tagList[tag]; dup && prev != args[li] {
			r.Bad("O-2", fk+"#tag:"+tag+":once", c.P.Pos(call.Pos()), "two different token lists are counted under the field "+tag)
		}
		tagList[tag] = args[li]
	})
	// lengths literal
	lenList := map[string]ssa.Value{}
	ssau.ForEachInstr(fn, false, func(in ssa.Instruction) {
		st, ok := in.(*ssa.Store)
		if !ok {
			return
		}
		fa, ok := st.Addr.(*ssa.FieldAddr)
		if !ok || ssau.NamedOf(fa.X.Type()) != dbPkg+".docLens" {
			return
		}
		if lc, ok := st.Val.(*ssa.Call); ok && ssau.CallName(lc) == "builtin.len" {
			lenList[ssau.FieldName(fa)] = lc.Common().Args[0]
		} else if hc, ok := st.Val.(*ssa.Call); ok && helperLen[hc] != nil {
			lenList[ssau.FieldName(fa)] = helperLen[hc]
		} else {
			r.Bad("O-2", fk+"#len:"+ssau.FieldName(fa), c.P.Pos(st.Pos()), "document length "+ssau.FieldName(fa)+" is not len of a token list")
		}
	})
	nTok := 0
	for _, f := range F {
		key := fk + "#field:" + f
		L, ok := tagList[f]
		if !ok {
			r.Bad("O-2", key, c.P.Pos(fn.Pos()), "no token list is counted under the tag "+f+": the field never contributes to the index")
			continue
		}
		fields, isTok := tokenSource(L, map[ssa.Value]bool{})
		if isTok {
			nTok++
		}
		r.Check(isTok, "O-1", key+":tokenizer", c.P.Pos(fn.Pos()), "tokens of field "+f+" come from normalizeAndTokenize", "the token list counted under "+f+" is not produced by normalizeAndTokenize: index and query would be tokenised differently")
		fam := c03Families[f]
		var got []string
		famOK := len(fields) > 0
		for g := range fields {
			got = append(got, g)
			in := false
			for _, x := range fam {
				if x == g {
					in = true
				}
			}
			if !in {
				famOK = false
			}
		}
		sort.Strings(got)
		r.Check(famOK, "O-2", key+":source", c.P.Pos(fn.Pos()), "tokenises Command."+strings.Join(got, "/"), fmt.Sprintf("the tokens counted under %s come from Command.%s, expected the %s family: fields are crossed", f, strings.Join(got, "/"), strings.Join(fam, "/")))
		r.Check(lenList[f] == L, "O-2", key+":length", c.P.Pos(fn.Pos()), "docLens."+f+" = len of the same token list", "the document length recorded for "+f+" is not the length of the token list counted under "+f)
	}
	for tag := range tagList {
		known := false
		for _, f := range F {
			if f == tag {
				known = true
			}
		}
		if !known {
			r.Bad("O-2", fk+"#tag:"+tag+":unknown", c.P.Pos(fn.Pos()), "tokens are counted under the tag "+tag+", which is not a field of fieldTF: they are silently dropped by the tag switch")
		}
	}
	r.Floor("O-1", "tokenizer call sites feeding the index", nTok, 4)
	// the tag switch
	if inc != nil {
		ik := fk + "$inc"
		seenTags := map[string]bool{}
		for _, iff := range ssau.Ifs(inc) {
			op, x, y, ok := ssau.CondOf(iff.Cond)
			if !ok || op != token.EQL {
				continue
			}
			tag, isC := ssau.ConstString(y)
			if !isC {
				tag, isC = ssau.ConstString(x)
			}
			if !isC {
				continue
			}
			seenTags[tag] = true
			tb := iff.Block().Succs[0]
			var incd []string
			for _, in := range tb.Instrs {
				if st, ok := in.(*ssa.Store); ok {
					if fa, ok := st.Addr.(*ssa.FieldAddr); ok && ssau.NamedOf(fa.X.Type()) == dbPkg+".fieldTF" {
						if bo, ok := st.Val.(*ssa.BinOp); ok && bo.Op == token.ADD {
							if k, ok := ssau.ConstInt(bo.Y); ok && k == 1 {
								incd = append(incd, ssau.FieldName(fa))
							}
						}
					}
				}
			}
			r.Check(len(incd) == 1 && incd[0] == tag, "O-2", ik+"#case:"+tag, c.P.Pos(iff.Cond.Pos()), "case \""+tag+"\" increments entry."+tag, fmt.Sprintf("case %q increments %v: term frequencies land in the wrong field", tag, incd))
		}
		for _, f := range F {
			if !seenTags[f] {
				r.Bad("O-2", ik+"#case:"+f, c.P.Pos(inc.Pos()), "the tag switch has no case for "+f)
			}
		}
		// read-modify-write of termFreqs[tok]
		rmw := false
		ssau.ForEachInstr(inc, false, func(in ssa.Instruction) {
			if mu, ok := in.(*ssa.MapUpdate); ok && incTok < len(inc.Params) && mu.Key == ssa.Value(inc.Params[incTok]) {
				rmw = true
			}
		})
		r.Check(rmw, "O-2", ik+"#writes-back", c.P.Pos(inc.Pos()), "termFreqs[tok] = entry", "the updated entry is not stored back under the token")
	}
}

func c03TermBM25F(c *Ctx, sx *symx.Ctx, F []string) {
	r := c.R
	fn := c.P.Func("internal/database", "universalIndex", "termBM25F")
	fk := "database.(*universalIndex).termBM25F"
	if !r.Anchor("O-2", fk, fn != nil) {
		return
	}
	var calls []*ssa.Call
	ssau.ForEachInstr(fn, false, func(in ssa.Instruction) {
		if call, ok := in.(*ssa.Call); ok && strings.HasSuffix(ssau.CallName(call), "universalIndex).fieldBM25") {
			calls = append(calls, call)
		}
	})
	seen := map[string]bool{}
	docID := fn.Params[1]
	// one contribution per call, or — for a call inside a loop over a literal
	// table of rows {tf.f, dl.f, avg.f, w.f, b.f} — one per row of that table
	type contrib struct {
		call  *ssa.Call
		args  []ssa.Value
		guard func(x ssa.Value) bool // x is this contribution's term count
	}
	var contribs []contrib
	for _, call := range calls {
		a := call.Common().Args // recv, tf, dl, avgdl, w, b
		if len(a) != 6 {
			continue
		}
		if rows, tfField := c03TableRows(a[1:]); rows != nil {
			for _, row := range rows {
				contribs = append(contribs, contrib{call, row, tfField})
			}
			continue
		}
		contribs = append(contribs, contrib{call, a[1:], nil})
	}
	for _, ct := range contribs {
		call := ct.call
		var names []string
		shapeOK := true
		for i, v := range ct.args {
			path := selPath(v, 0)
			n := ""
			if len(path) > 0 {
				n = path[len(path)-1]
			}
			names = append(names, n)
			owner := func(k int) string {
				if len(path) > k {
					return path[len(path)-1-k]
				}
				return ""
			}
			switch i {
			case 0: // tf.<f> of the tf parameter
				shapeOK = shapeOK && owner(1) == "param:"+fn.Params[2].Name()
			case 1: // docLens[docID].<f>
				shapeOK = shapeOK && owner(1) == "[param:"+docID.Name()+"]" && owner(2) == "docLens"
			case 2:
				shapeOK = shapeOK && owner(1) == "avgLen"
			case 3:
				shapeOK = shapeOK && owner(1) == "w"
			case 4:
				shapeOK = shapeOK && owner(1) == "b"
			}
		}
		f := names[0]
		key := fk + "#field:" + f
		same := true
		for _, n := range names {
			if n != f {
				same = false
			}
		}
		seen[f] = true
		r.Check(same && shapeOK, "O-2", key+":selectors", c.P.Pos(call.Pos()), "fieldBM25(tf."+f+", docLens[docID]."+f+", avgLen."+f+", w."+f+", b."+f+")", fmt.Sprintf("the five selectors of one field contribution are %v (want the same field in tf, docLens[docID], avgLen, w and b)", names))
		// guarded by tf.f > 0
		cut := map[[2]int]bool{}
		for _, iff := range ssau.Ifs(fn) {
			op, x, y, ok := ssau.CondOf(iff.Cond)
			if !ok {
				continue
			}
			n, _ := lastSelector(x)
			if ct.guard != nil {
				n = ""
				if ct.guard(x) {
					n = f // the row's own count
				}
			}
			if k, isC := ssau.ConstInt(y); isC && k == 0 && n == f && op == token.GTR {
				cut[[2]int{iff.Block().Index, 0}] = true
			}
		}
		r.Check(len(cut) > 0 && !ssau.ReachableAvoidingEdges(fn, call.Block(), cut), "O-2", key+":guard", c.P.Pos(call.Pos()), "reached only when tf."+f+" > 0", "the contribution of "+f+" is not guarded by tf."+f+" > 0 (or by another field's count)")
		// result is added to the score
		added := false
		for _, ref := range *call.Referrers() {
			if bo, ok := ref.(*ssa.BinOp); ok && bo.Op == token.ADD {
				added = true
			}
		}
		r.Check(added, "O-2", key+":summed", c.P.Pos(call.Pos()), "added to the term score", "the contribution of "+f+" is not added to the score")
	}
	for _, f := range F {
		if !seen[f] {
			r.Bad("O-2", fk+"#field:"+f+":selectors", c.P.Pos(fn.Pos()), "no fieldBM25 contribution for "+f+": matches in that field score nothing")
		}
	}
	// inside the per-field formula a default may stand in for the average
	// length only when that average is not positive: a positive average (also
	// one below 1, as for sparsely filled fields) is part of the BM25F sum
	if len(calls) > 0 {
		if g := calls[0].Common().StaticCallee(); g != nil && len(g.Blocks) > 0 {
			gk := load.FuncKey(g)
			ssau.ForEachInstr(g, false, func(in ssa.Instruction) {
				ph, ok := in.(*ssa.Phi)
				if !ok {
					return
				}
				var par *ssa.Parameter
				for _, e := range ph.Edges {
					if p, ok := e.(*ssa.Parameter); ok {
						par = p
					}
				}
				if par == nil {
					return
				}
				for k, e := range ph.Edges {
					if _, isC := ssau.ConstFloat(e); !isC {
						continue
					}
					// the edge carrying the default: which values of the parameter take it?
					pred := ph.Block().Preds[k]
					verdict := ""
					for _, iff := range ssau.Ifs(g) {
						op, x, y, okc := ssau.CondOf(iff.Cond)
						if !okc {
							continue
						}
						if y == ssa.Value(par) {
							x, y, op = y, x, ssau.Flip(op)
						}
						cst, isC := ssau.ConstFloat(y)
						if x != ssa.Value(par) || !isC {
							continue
						}
						// the edge of this test that leads to pred (or is pred -> phi block)
						for side := 0; side < 2; side++ {
							tb := iff.Block().Succs[side]
							leads := tb == pred || (iff.Block() == pred && tb == ph.Block()) || tb.Dominates(pred)
							if !leads {
								continue
							}
							o := op
							if side == 1 {
								o = ssau.Negate(op)
							}
							// replaced region: par o cst
							switch o {
							case token.LEQ, token.LSS, token.EQL:
								if cst > 0 {
									verdict = fmt.Sprintf("%s %s %v", par.Name(), o, cst)
								}
							case token.GEQ, token.GTR, token.NEQ:
								verdict = fmt.Sprintf("%s %s %v", par.Name(), o, cst)
							}
						}
					}
					r.Check(verdict == "", "O-2", gk+"#default-only-for-nonpositive:"+par.Name(), c.P.Pos(ph.Pos()), "the default replaces "+par.Name()+" only when it is not positive", "the default replaces "+par.Name()+" when "+verdict+": positive values are overridden, so the score is no longer the BM25F sum for fields with a small average length")
				}
			})
		}
	}
	r.Check(len(contribs) == len(F), "O-2", fk+"#one-call-per-field", c.P.Pos(fn.Pos()), fmt.Sprintf("%d contributions for %d fields", len(contribs), len(F)), fmt.Sprintf("%d fieldBM25 contributions for %d fields: a field is counted twice or dropped", len(contribs), len(F)))
	// the return value sums all contributions
	sum := map[*ssa.Call]bool{}
	var walk func(v ssa.Value, d int)
	vis := map[ssa.Value]bool{}
	walk = func(v ssa.Value, d int) {
		if vis[v] || d > 30 {
			return
		}
		vis[v] = true
		switch x := v.(type) {
		case *ssa.Phi:
			for _, e := range x.Edges {
				walk(e, d+1)
			}
		case *ssa.BinOp:
			if x.Op == token.ADD {
				walk(x.X, d+1)
				walk(x.Y, d+1)
			}
		case *ssa.Call:
			sum[x] = true
		}
	}
	for _, ret := range ssau.ReturnsOf(fn) {
		walk(ret.Results[0], 0)
	}
	all := true
	for _, call := range calls {
		if !sum[call] {
			all = false
		}
	}
	r.Check(all, "O-2", fk+"#returns-sum-of-all", c.P.Pos(fn.Pos()), "the result is the sum of every field contribution", "the returned score does not include every field contribution")
}

// paramCell: base is the spill cell of parameter p.
func paramCell(base ssa.Value, p *ssa.Parameter) bool {
	al, ok := base.(*ssa.Alloc)
	if !ok {
		return false
	}
	n := 0
	good := false
	for _, ref := range *al.Referrers() {
		if st, ok := ref.(*ssa.Store); ok && st.Addr == ssa.Value(al) {
			n++
			good = st.Val == ssa.Value(p)
		}
	}
	return n == 1 && good
}

func c03Build(c *Ctx, sx *symx.Ctx, F []string) {
	r := c.R
	fn := c.P.Func("internal/database", "Database", "BuildUniversalIndex")
	fk := "database.(*Database).BuildUniversalIndex"
	if !r.Anchor("O-3", fk, fn != nil) {
		return
	}
	// the builder may be split into steps (constructor, per-document step,
	// averages): functions that only the builder (or another such step) calls
	// belong to it, and a parameter of a step called from one place stands
	// for the argument passed there
	fam := c03BuilderFamily(c, fn)
	res := fam.resolve
	each := func(visit func(in ssa.Instruction)) {
		for _, g := range fam.list {
			ssau.ForEachInstr(g, false, visit)
		}
	}
	// the per-document loop
	var docLoop *ssau.RangeLoop
	for _, g := range fam.list {
		gl := ssau.RangeLoops(g)
		for i := range gl {
			if gl[i].Over != nil && !gl[i].IsMap {
				if _, ok := ssau.IsFieldLoad(res(gl[i].Over), dbType, "Commands"); ok {
					docLoop = &gl[i]
				}
			}
		}
	}
	if docLoop == nil {
		r.Bad("O-3", fk+"#doc-loop", c.P.Pos(fn.Pos()), "no range loop over db.Commands")
		return
	}
	var ic *ssa.Call
	for _, g := range fam.list {
		for _, call := range callsTo(g, dbPkg+".indexCommand") {
			ic = call
		}
	}
	if ic == nil {
		r.Bad("O-3", fk+"#indexCommand-call", c.P.Pos(fn.Pos()), "indexCommand is not called")
		return
	}
	argOK := false
	if ia, ok := res(ic.Common().Args[0]).(*ssa.IndexAddr); ok && res(ia.Index) == docLoop.Index {
		if _, ok := ssau.IsFieldLoad(res(ia.X), dbType, "Commands"); ok {
			argOK = true
		}
	}
	r.Check(argOK && fam.inLoop(docLoop, ic), "O-3", fk+"#indexes-command-i", c.P.Pos(ic.Pos()), "indexCommand(&db.Commands[i]) with the loop index", "indexCommand is not applied to &db.Commands[i] of the per-document loop")
	lens, tf := resultValue(ic, 0), resultValue(ic, 1)
	// stores of lens and tf at index i
	var perDoc ssa.Value
	lensOK, tfOK := false, false
	each(func(in ssa.Instruction) {
		st, ok := in.(*ssa.Store)
		if !ok {
			return
		}
		ia, ok := st.Addr.(*ssa.IndexAddr)
		if !ok {
			return
		}
		if viaCell(st.Val, lens) {
			_, isDL := ssau.IsFieldLoad(ia.X, dbPkg+".universalIndex", "docLens")
			lensOK = isDL && res(ia.Index) == docLoop.Index
		}
		if viaCell(st.Val, tf) {
			tfOK = res(ia.Index) == docLoop.Index
			perDoc = ia.X
		}
	})
	r.Check(lensOK, "O-3", fk+"#docLens-at-i", c.P.Pos(ic.Pos()), "idx.docLens[i] = lengths of command i", "the lengths returned for command i are not stored at idx.docLens[i]")
	if perDoc == nil {
		// no per-document table: the term map must then be consumed inside the loop (checked with the postings below)
		tfOK = true
	}
	r.Check(tfOK, "O-3", fk+"#perDoc-at-i", c.P.Pos(ic.Pos()), "perDoc[i] = term frequencies of command i (or consumed in the same iteration)", "the term map returned for command i is not stored at index i of the per-document table")
	// N = len(db.Commands)
	nOK := false
	each(func(in ssa.Instruction) {
		if st, ok := in.(*ssa.Store); ok {
			if fa, ok := ssau.IsFieldAddr(st.Addr, dbPkg+".universalIndex", "N"); ok && fa != nil {
				if lc, ok := res(st.Val).(*ssa.Call); ok && ssau.CallName(lc) == "builtin.len" {
					if _, ok := ssau.IsFieldLoad(res(lc.Common().Args[0]), dbType, "Commands"); ok {
						nOK = true
					}
				}
			}
		}
	})
	r.Check(nOK, "O-3", fk+"#N-is-len-commands", c.P.Pos(fn.Pos()), "idx.N = len(db.Commands)", "idx.N is not len(db.Commands): idf and the staleness test use a wrong document count")

	// O-4: df once per key of this document's map
	stepFn := ic.Parent()
	f := sx.Of(stepFn)
	loops := ssau.RangeLoops(stepFn)
	var dfLoop *ssau.RangeLoop
	for i := range loops {
		if loops[i].IsMap && loops[i].Over == tf {
			dfLoop = &loops[i]
		}
	}
	if dfLoop == nil {
		r.Bad("O-4", fk+"#df-loop", c.P.Pos(ic.Pos()), "document frequencies are not updated in a range over the keys of the document's own term map (a token loop would count a term once per occurrence)")
	} else {
		isDf := func(in ssa.Instruction) bool {
			mu, ok := in.(*ssa.MapUpdate)
			if !ok {
				return false
			}
			if _, ok := ssau.IsFieldLoad(mu.Map, dbPkg+".universalIndex", "df"); !ok {
				return false
			}
			ex, ok := mu.Key.(*ssa.Extract)
			if !ok || ex.Tuple != ssa.Value(dfLoop.Next) || ex.Index != 1 {
				return false
			}
			bo, ok := mu.Value.(*ssa.BinOp)
			if !ok || bo.Op != token.ADD {
				return false
			}
			k, ok := ssau.ConstInt(bo.Y)
			return ok && k == 1
		}
		eng := pathev.New(func(in ssa.Instruction) []string {
			if isDf(in) {
				return []string{"df++"}
			}
			if mu, ok := in.(*ssa.MapUpdate); ok {
				if _, ok := ssau.IsFieldLoad(mu.Map, dbPkg+".universalIndex", "df"); ok {
					return []string{"df=?"}
				}
			}
			return nil
		}, nil)
		m, _, ok := eng.Between(dfLoop.Body, dfLoop.Header)
		r.Check(ok && m.Get("df++").ExactlyOnce() && m.Get("df=?").Never(), "O-4", fk+"#df-once-per-term", c.P.Pos(dfLoop.Body.Instrs[0].Pos()), "df[term]++ exactly once per distinct term of the document", fmt.Sprintf("per distinct term of a document df is incremented %v times (other writes %v)", m.Get("df++"), m.Get("df=?")))
		// and nowhere else
		other := 0
		each(func(in ssa.Instruction) {
			if mu, ok := in.(*ssa.MapUpdate); ok {
				if _, ok := ssau.IsFieldLoad(mu.Map, dbPkg+".universalIndex", "df"); ok && !dfLoop.InLoop(mu.Block()) {
					other++
				}
			}
		})
		r.Check(other == 0, "O-4", fk+"#df-only-there", c.P.Pos(fn.Pos()), "df is written only in that loop", "df is also written outside the per-document key loop")
	}

	// sums and averages per field
	for _, fld := range F {
		sumOK, avgOK := false, false
		each(func(in ssa.Instruction) {
			st, ok := in.(*ssa.Store)
			if !ok {
				return
			}
			fa, ok := st.Addr.(*ssa.FieldAddr)
			if !ok || ssau.FieldName(fa) != fld {
				return
			}
			switch ssau.NamedOf(fa.X.Type()) {
			case dbPkg + ".docLens":
				// sum.f = sum.f + l.f
				if bo, ok := st.Val.(*ssa.BinOp); ok && bo.Op == token.ADD {
					n1, _ := lastSelector(bo.X)
					n2, _ := lastSelector(bo.Y)
					if n1 == fld && n2 == fld {
						sumOK = true
					}
				}
			case dbPkg + ".docLensF":
				// avgLen.f = float64(sum.f) / n
				if bo, ok := st.Val.(*ssa.BinOp); ok && bo.Op == token.QUO {
					n1, _ := lastSelector(bo.X)
					n2, _ := lastSelector(bo.Y)
					if n1 == fld && n2 == "N" {
						avgOK = true
					}
					// or the number of entries of the list of document lengths
					// itself (which has one entry per document: C10's invariant)
					dv := bo.Y
					if cv, ok := dv.(*ssa.Convert); ok {
						dv = cv.X
					}
					if lc, ok := dv.(*ssa.Call); ok && n1 == fld && ssau.CallName(lc) == "builtin.len" {
						if sl, ok := lc.Common().Args[0].Type().Underlying().(*types.Slice); ok && ssau.NamedOf(sl.Elem()) == dbPkg+".docLens" {
							avgOK = true
						}
					}
				}
			}
		})
		r.Check(sumOK, "O-2", fk+"#sum:"+fld, c.P.Pos(fn.Pos()), "sum."+fld+" += l."+fld, "the length sum of field "+fld+" does not add that field's lengths")
		r.Check(avgOK, "O-2", fk+"#avg:"+fld, c.P.Pos(fn.Pos()), "avgLen."+fld+" = sum."+fld+" / N", "the average length of field "+fld+" is not sum."+fld+"/N")
	}

	// postings: docID is the index of the per-document table, tf its value
	var pLoop *ssau.RangeLoop
	for i := range loops {
		if !loops[i].IsMap && loops[i].Over != nil && perDoc != nil && f.E(loops[i].Over) == f.E(perDoc) {
			pLoop = &loops[i]
		}
	}
	postOK := false
	// the fused form: postings are appended in the per-document loop itself, in a
	// range over the term map indexCommand returned for that very document
	if pLoop == nil && perDoc == nil {
		pLoop = docLoop
	}
	if pLoop != nil {
		each(func(in ssa.Instruction) {
			mu, ok := in.(*ssa.MapUpdate)
			if !ok {
				return
			}
			if _, ok := ssau.IsFieldLoad(mu.Map, dbPkg+".universalIndex", "postings"); !ok {
				return
			}
			// value = append(postings[term], posting{docID: idx, tf: ftf})
			call, ok := mu.Value.(*ssa.Call)
			if !ok || ssau.CallName(call) != "builtin.append" {
				return
			}
			el := appendedSingle(call)
			u, ok := el.(*ssa.UnOp)
			if !ok {
				return
			}
			lit, ok := u.X.(*ssa.Alloc)
			if !ok {
				return
			}
			docOK, tfOK2 := false, false
			for _, ref := range *lit.Referrers() {
				if fa, ok := ref.(*ssa.FieldAddr); ok {
					for _, r2 := range *fa.Referrers() {
						if st, ok := r2.(*ssa.Store); ok && st.Addr == ssa.Value(fa) {
							switch ssau.FieldName(fa) {
							case "docID":
								docOK = res(st.Val) == pLoop.Index
							case "tf":
								if ex, ok := st.Val.(*ssa.Extract); ok && ex.Index == 2 {
									tfOK2 = true
									if pLoop == docLoop {
										// fused form: the value ranged over is this document's own term map
										tfOK2 = false
										if nx, ok := ex.Tuple.(*ssa.Next); ok {
											if rg, ok := nx.Iter.(*ssa.Range); ok && rg.X == tf {
												tfOK2 = true
											}
										}
									}
								}
							}
						}
					}
				}
			}
			// key is the term of the inner map loop, and the lookup appended to uses the same key
			keyOK := false
			if lk, ok := call.Common().Args[0].(*ssa.Lookup); ok && lk.Index == mu.Key {
				keyOK = true
			}
			if docOK && tfOK2 && keyOK {
				postOK = true
			}
		})
	}
	r.Check(postOK, "O-3", fk+"#posting-docID", c.P.Pos(fn.Pos()), "postings[term] = append(postings[term], posting{docID: index of the per-document table, tf: that document's counts})", "postings are not built as posting{docID: i, tf: perDoc[i][term]} appended under the same term")
}

// sameFieldAddr: a is another address computation of the same field of the
// same base as fa.
func sameFieldAddr(a ssa.Value, fa *ssa.FieldAddr) bool {
	fa2, ok := a.(*ssa.FieldAddr)
	return ok && fa2.X == fa.X && fa2.Field == fa.Field
}

// viaCell: v is target, or a load of a local variable that only ever holds
// target (a struct result kept in a variable because its fields are read).
func viaCell(v, target ssa.Value) bool {
	if v == target {
		return true
	}
	u, ok := v.(*ssa.UnOp)
	if !ok || u.Op != token.MUL {
		return false
	}
	al, ok := u.X.(*ssa.Alloc)
	if !ok {
		return false
	}
	n := 0
	for _, ref := range *al.Referrers() {
		if st, ok := ref.(*ssa.Store); ok && st.Addr == ssa.Value(al) {
			if st.Val != target {
				return false
			}
			n++
		}
	}
	return n > 0
}

// c03WhoWrites: the index tables are written only by the builder, so that
// postings, document frequencies, lengths, N and the averages always describe
// the same command list.
func c03WhoWrites(c *Ctx) {
	r := c.R
	build := c.P.Func("internal/database", "Database", "BuildUniversalIndex")
	uix := dbPkg + ".universalIndex"
	inside, n := 0, 0
	fam := &builderFamily{in: map[*ssa.Function]bool{}}
	if build != nil {
		fam = c03BuilderFamily(c, build) // the builder and the steps only it calls
	}
	for _, fn := range shippedFuncs(c) {
		root := fn
		for root.Parent() != nil {
			root = root.Parent()
		}
		ssau.ForEachInstr(fn, false, func(in ssa.Instruction) {
			what := ""
			switch x := in.(type) {
			case *ssa.Store:
				if fa, ok := x.Addr.(*ssa.FieldAddr); ok && ssau.NamedOf(fa.X.Type()) == uix {
					what = "idx." + ssau.FieldName(fa)
				}
				if ia, ok := x.Addr.(*ssa.IndexAddr); ok {
					if _, ok := ssau.IsFieldLoad(ia.X, uix, "docLens"); ok {
						what = "idx.docLens[i]"
					}
				}
			case *ssa.MapUpdate:
				for _, f := range []string{"postings", "df"} {
					if _, ok := ssau.IsFieldLoad(x.Map, uix, f); ok {
						what = "idx." + f + "[term]"
					}
				}
			}
			if what == "" {
				return
			}
			if fam.in[root] {
				inside++
				return
			}
			n++
			r.Bad("O-2", fmt.Sprintf("%s#writes-index-table-%d", load.FuncKey(fn), n), c.P.Pos(in.Pos()), what+" is written outside BuildUniversalIndex: postings, document frequencies, lengths, N and the length averages can no longer be assumed to describe the same command list (an incremental update must recompute all of them)")
		})
	}
	r.Floor("O-2", "index-table writes inside the builder", inside, 8)
	if n == 0 {
		r.OK("O-2", "database.universalIndex#written-only-by-the-builder", "", fmt.Sprintf("%d writes, all inside BuildUniversalIndex", inside))
	}
}

func c03Scoring(c *Ctx, sx *symx.Ctx) {
	r := c.R
	// the scoring loop: wherever the postings of a term are walked and the
	// accumulator (a map from document number to score) is updated
	nAcc := 0
	for _, pl := range postingLoops(c) {
		fn, loop := pl.fn, pl.loop
		fk := load.FuncKey(fn)
		var acc []*ssa.MapUpdate
		ssau.ForEachInstr(fn, false, func(in ssa.Instruction) {
			if mu, ok := in.(*ssa.MapUpdate); ok && loop.InLoop(mu.Block()) {
				if m, ok := mu.Map.Type().Underlying().(*types.Map); ok {
					kb, ok1 := m.Key().Underlying().(*types.Basic)
					vb, ok2 := m.Elem().Underlying().(*types.Basic)
					if ok1 && ok2 && kb.Kind() == types.Int && vb.Kind() == types.Float64 {
						acc = append(acc, mu)
					}
				}
			}
		})
		if len(acc) == 0 {
			continue // a walk over postings that scores nothing
		}
		nAcc++
		keyOK, docOK, callOK := true, false, false
		for _, mu := range acc {
			if !pl.current(mu.Key, "docID") {
				keyOK = false
			}
		}
		ssau.ForEachInstr(fn, false, func(in ssa.Instruction) {
			if !loop.InLoop(in.Block()) {
				return
			}
			switch x := in.(type) {
			case *ssa.IndexAddr:
				if _, ok := ssau.IsFieldLoad(x.X, dbType, "Commands"); ok {
					docOK = pl.current(x.Index, "docID")
				}
			case *ssa.Call:
				if strings.HasSuffix(ssau.CallName(x), "universalIndex).termBM25F") {
					a := x.Common().Args
					callOK = len(a) >= 3 && pl.current(a[1], "docID") && pl.current(a[2], "tf")
				}
			}
		})
		r.Check(keyOK, "O-3", fk+"#accumulator-key", c.P.Pos(fn.Pos()), "scores[p.docID]", "the score accumulator is not keyed by the posting's docID")
		r.Check(docOK, "O-3", fk+"#filtered-command", c.P.Pos(fn.Pos()), "the filters look at db.Commands[p.docID]", "the command examined by the filters is not db.Commands[p.docID]")
		r.Check(callOK, "O-3", fk+"#scores-own-posting", c.P.Pos(fn.Pos()), "termBM25F(p.docID, p.tf)", "termBM25F is not given the posting's own docID and term frequencies")
	}
	r.Floor("O-3", "scoring loops over postings", nAcc, 1)
	// query side: terms come from normalizeAndTokenize; postings and df are looked up with the same term
	su := c.P.Func("internal/database", "Database", "SearchUniversal")
	if r.Anchor("O-1", "database.(*Database).SearchUniversal", su != nil) {
		n := 0
		for _, call := range callsTo(su, tokenizerFn) {
			n++
			r.Check(call.Common().Args[0] == ssa.Value(su.Params[1]) || ssau.ParamOf(call.Common().Args[0]) == su.Params[1], "O-1", "database.(*Database).SearchUniversal#tokenizes-query", c.P.Pos(call.Pos()), "terms = normalizeAndTokenize(query)", "the query is not what is tokenised")
		}
		r.Check(n == 1, "O-1", "database.(*Database).SearchUniversal#one-tokenizer-call", c.P.Pos(su.Pos()), "the query is tokenised by normalizeAndTokenize", fmt.Sprintf("%d calls of normalizeAndTokenize on the query side (want 1)", n))
		// no other tokenizer feeds `terms` when NLP is off: the terms handed on derive from that call (selectTopTerms / enhance are the only transformers)
	}
	cs := c.P.Func("internal/database", "Database", "calculateInitialScores")
	if r.Anchor("O-3", "database.(*Database).calculateInitialScores", cs != nil) {
		fk2 := "database.(*Database).calculateInitialScores"
		// the lookups are in the scoring function or in a per-term step it calls
		steps := []*ssa.Function{cs}
		stepSite := map[*ssa.Function]*ssa.Call{}
		for i := 0; i < len(steps) && i < 12; i++ {
			ssau.ForEachInstr(steps[i], true, func(in ssa.Instruction) {
				if call, ok := in.(*ssa.Call); ok {
					if g := call.Common().StaticCallee(); g != nil && g.Blocks != nil && g.Parent() == nil && c.P.IsRepoFunc(g) && g.Pkg == cs.Pkg {
						if _, dup := stepSite[g]; dup {
							stepSite[g] = nil // more than one call site: parameters are not resolved
							return
						}
						stepSite[g] = call
						steps = append(steps, g)
					}
				}
			})
		}
		var post, df *ssa.Lookup
		var lookFn *ssa.Function
		for _, g := range steps {
			ssau.ForEachInstr(g, false, func(in ssa.Instruction) {
				if lk, ok := in.(*ssa.Lookup); ok && post == nil {
					if _, ok := ssau.IsFieldLoad(lk.X, dbPkg+".universalIndex", "postings"); ok {
						lookFn = g
					}
				}
			})
			if lookFn != nil {
				break
			}
		}
		if lookFn == nil {
			lookFn = cs
		}
		f := sx.Of(lookFn)
		ssau.ForEachInstr(lookFn, false, func(in ssa.Instruction) {
			lk, ok := in.(*ssa.Lookup)
			if !ok {
				return
			}
			if _, ok := ssau.IsFieldLoad(lk.X, dbPkg+".universalIndex", "postings"); ok {
				post = lk
			}
			if _, ok := ssau.IsFieldLoad(lk.X, dbPkg+".universalIndex", "df"); ok {
				df = lk
			}
			// or a per-term idf table of the index, filled by the builder with
			// bm25IDF(N, df[term]) for every term of df (checked below)
			if base, ok := lk.X.(*ssa.UnOp); ok && df == nil {
				if fa, ok := base.X.(*ssa.FieldAddr); ok && ssau.FieldOwner(fa) == dbPkg+".universalIndex" && c03IdfTable(c, ssau.FieldName(fa)) {
					df = lk
				}
			}
		})
		good := post != nil && df != nil && f.E(post.Index) == f.E(df.Index)
		// the term is an element of the terms parameter
		if good {
			good = false
			term := post.Index
			for i := 0; i < 4; i++ {
				par, ok := term.(*ssa.Parameter)
				if !ok || par.Parent() == cs || stepSite[par.Parent()] == nil {
					break
				}
				for k, q := range par.Parent().Params {
					if q == par && k < len(stepSite[par.Parent()].Common().Args) {
						term = stepSite[par.Parent()].Common().Args[k]
					}
				}
			}
			for _, l := range ssau.RangeLoops(cs) {
				if (l.Over == ssa.Value(cs.Params[1]) || ssau.ParamOf(l.Over) == cs.Params[1]) && !l.IsMap {
					if u, ok := term.(*ssa.UnOp); ok {
						if ia, ok := u.X.(*ssa.IndexAddr); ok && ia.Index == l.Index {
							good = true
						}
					}
				}
			}
		}
		r.Check(good, "O-3", fk2+"#postings-and-df-of-the-same-term", c.P.Pos(cs.Pos()), "postings[term] and df[term] for each term of the list", "postings and document frequency are not looked up with the same element of the term list")
	}
}

func c03Rebuild(c *Ctx) {
	r := c.R
	build := c.P.Func("internal/database", "Database", "BuildUniversalIndex")
	tfidf := c.P.Func("internal/database", "Database", "buildTFIDFSearcher")
	if !r.Anchor("O-5", "database.(*Database).buildTFIDFSearcher", build != nil && tfidf != nil) {
		return
	}
	bn, tn := ssau.FuncName(build), ssau.FuncName(tfidf)
	n := 0
	for _, fn := range shippedFuncs(c) {
		for _, call := range callsTo(fn, bn) {
			n++
			key := fmt.Sprintf("%s#index-build-%d", load.FuncKey(fn), n)
			recv := call.Common().Args[0]
			// a database freshly constructed in this function and not yet searched may defer to... no: it must build the re-ranker too (LoadDatabase does)
			eng := pathev.New(func(in ssa.Instruction) []string {
				if c2, ok := in.(*ssa.Call); ok && c2 != call {
					for _, t := range rebuildTags(c2, bn, tn, func(v ssa.Value) bool { return sameDB(v, recv) }, 0) {
						if t == "tfidf" {
							return []string{"tfidf"}
						}
					}
				}
				return nil
			}, nil)
			ok := true
			for _, m := range eng.From(call.Block(), ssau.InstrIndex(call)) {
				if !m.Get("tfidf").Always() {
					ok = false
				}
			}
			// accepted alternative: the rebuild is skipped only on the side where no re-ranker exists (db.tfidf == nil)
			if !ok {
				ok = c03RerankerGuarded(fn, call, tn, recv)
			}
			r.Check(ok, "O-5", key, c.P.Pos(call.Pos()), "followed on all paths by buildTFIDFSearcher (or only skipped when the database has no re-ranker)", "the inverted index is rebuilt but the TF-IDF re-ranker and the command-pointer index are not: NLP re-ranking and the semantic stage keep using tables built for the old command list")
		}
	}
	r.Floor("O-5", "index build call sites", n, 2)
	// stores to Commands of an existing database
	m := 0
	for _, fn := range shippedFuncs(c) {
		ssau.ForEachInstr(fn, false, func(in ssa.Instruction) {
			st, ok := in.(*ssa.Store)
			if !ok {
				return
			}
			fa, ok := ssau.IsFieldAddr(st.Addr, dbType, "Commands")
			if !ok {
				return
			}
			if al, isAlloc := fa.X.(*ssa.Alloc); isAlloc && al.Heap {
				return
			}
			m++
			dbv := fa.X
			eng := pathev.New(func(i2 ssa.Instruction) []string {
				if c2, ok := i2.(*ssa.Call); ok {
					return rebuildTags(c2, bn, tn, func(v ssa.Value) bool { return sameDB(v, dbv) || v == dbv }, 0)
				}
				return nil
			}, nil)
			ok2 := true
			for _, mk := range eng.From(st.Block(), ssau.InstrIndex(st)) {
				if !mk.Get("build").Always() || !mk.Get("tfidf").Always() {
					ok2 = false
				}
			}
			r.Check(ok2, "O-5", fmt.Sprintf("%s#replaces-commands-%d", load.FuncKey(fn), m), c.P.Pos(st.Pos()), "followed by both rebuilds", "the command list of an existing database is replaced without rebuilding both the inverted index and the re-ranker on every path")
		})
	}
}

// rebuildTags: the rebuild events a call performs on the database recognised
// by isDB: the index build and/or the re-ranker build themselves, or a method
// of the repository called on that database which performs them on its own
// receiver on every path (db.rebuildSearchStructures()).
func rebuildTags(call *ssa.Call, bn, tn string, isDB func(ssa.Value) bool, d int) []string {
	if len(call.Common().Args) == 0 || !isDB(call.Common().Args[0]) {
		return nil
	}
	switch ssau.CallName(call) {
	case bn:
		return []string{"build"}
	case tn:
		return []string{"tfidf"}
	}
	w := call.Common().StaticCallee()
	if w == nil || w.Blocks == nil || len(w.Params) == 0 || d > 2 || !strings.HasPrefix(ssau.FuncName(w), "(*"+dbType+")") && !strings.HasPrefix(ssau.FuncName(w), load.ModulePath) {
		return nil
	}
	recv := w.Params[0]
	inner := pathev.New(func(in ssa.Instruction) []string {
		if c2, ok := in.(*ssa.Call); ok {
			return rebuildTags(c2, bn, tn, func(v ssa.Value) bool { return v == ssa.Value(recv) || ssau.ParamOf(v) == recv }, d+1)
		}
		return nil
	}, nil)
	var out []string
	for _, t := range []string{"build", "tfidf"} {
		all := true
		n := 0
		for _, m := range inner.Exits(w) {
			n++
			if !m.Get(t).Always() {
				all = false
			}
		}
		if all && n > 0 {
			out = append(out, t)
		}
	}
	return out
}

func sameDB(a, b ssa.Value) bool {
	if a == b {
		return true
	}
	// loads of the same field path (cdb.Database)
	ua, ok1 := a.(*ssa.UnOp)
	ub, ok2 := b.(*ssa.UnOp)
	if ok1 && ok2 {
		fa, ok3 := ua.X.(*ssa.FieldAddr)
		fb, ok4 := ub.X.(*ssa.FieldAddr)
		if ok3 && ok4 {
			return fa.Field == fb.Field && sameDB(fa.X, fb.X)
		}
		return ua.X == ub.X
	}
	return false
}

// c03RerankerGuarded: the function calls buildTFIDFSearcher after the index
// build on every path on which db.tfidf != nil.
func c03RerankerGuarded(fn *ssa.Function, call *ssa.Call, tn string, recv ssa.Value) bool {
	// edges on which tfidf == nil (no re-ranker)
	cut := map[[2]int]bool{}
	for _, iff := range ssau.Ifs(fn) {
		b, ok := iff.Cond.(*ssa.BinOp)
		if !ok || !ssau.IsNilConst(b.Y) {
			continue
		}
		if _, ok := ssau.IsFieldLoad(b.X, dbType, "tfidf"); !ok {
			continue
		}
		if b.Op == token.NEQ {
			cut[[2]int{iff.Block().Index, 1}] = true
		} else if b.Op == token.EQL {
			cut[[2]int{iff.Block().Index, 0}] = true
		}
	}
	if len(cut) == 0 {
		return false
	}
	// from the build call, avoiding the no-re-ranker edges, every path to a return passes the rebuild
	reach := blocksReachable(call.Block(), cut)
	reach[call.Block()] = true
	var rebuilds []*ssa.Call
	for _, c2 := range callsTo(fn, tn) {
		if sameDB(c2.Common().Args[0], recv) {
			rebuilds = append(rebuilds, c2)
		}
	}
	if len(rebuilds) == 0 {
		return false
	}
	// remove rebuild blocks: no return may remain reachable from the build
	cutB := map[*ssa.BasicBlock]bool{}
	for _, rb := range rebuilds {
		cutB[rb.Block()] = true
	}
	seen := map[*ssa.BasicBlock]bool{}
	st := []*ssa.BasicBlock{call.Block()}
	for len(st) > 0 {
		b := st[len(st)-1]
		st = st[:len(st)-1]
		if seen[b] {
			continue
		}
		seen[b] = true
		if b != call.Block() || true {
			if _, isRet := b.Instrs[len(b.Instrs)-1].(*ssa.Return); isRet && !cutB[b] {
				return false
			}
		}
		for k, sc := range b.Succs {
			if cut[[2]int{b.Index, k}] || cutB[sc] {
				continue
			}
			st = append(st, sc)
		}
	}
	return true
}

func c03TermCap(c *Ctx, sx *symx.Ctx) {
	r := c.R
	fn := c.P.Func("internal/database", "Database", "selectTopTerms")
	fk := "database.(*Database).selectTopTerms"
	if r.Anchor("O-6", fk, fn != nil) {
		// identity when len(terms) <= maxTerms
		cut := map[[2]int]bool{}
		for _, iff := range ssau.Ifs(fn) {
			op, x, y, ok := ssau.CondOf(iff.Cond)
			if !ok {
				continue
			}
			if lc, isLen := x.(*ssa.Call); isLen && ssau.CallName(lc) == "builtin.len" && lc.Common().Args[0] == ssa.Value(fn.Params[1]) && y == ssa.Value(fn.Params[2]) {
				switch op {
				case token.LEQ:
					cut[[2]int{iff.Block().Index, 1}] = true // the "long" side
				case token.GTR:
					cut[[2]int{iff.Block().Index, 0}] = true
				}
			}
		}
		// with the long-side edges cut, only returns of the parameter itself are reachable
		good := len(cut) > 0
		reach := reachableFromEntry(fn, cut)
		for _, ret := range ssau.ReturnsOf(fn) {
			if reach[ret.Block()] && ret.Results[0] != ssa.Value(fn.Params[1]) {
				good = false
			}
		}
		r.Check(good, "O-6", fk+"#identity-when-short", c.P.Pos(fn.Pos()), "len(terms) <= cap returns terms itself", "a term list no longer than the cap is not returned unchanged")
		// preserveCount = Min(P, len(terms)), P >= 4
		pOK := false
		var pv int64
		// in selectTopTerms itself or in the capping step it delegates to
		for _, g := range withSteps(c, fn, 2) {
			ssau.ForEachInstr(g, false, func(in ssa.Instruction) {
				if call, ok := in.(*ssa.Call); ok && !pOK && (strings.HasSuffix(ssau.CallName(call), "utils.Min") || ssau.CallName(call) == "builtin.min") {
					// min(P, len(<the term list>))
					hasLen := false
					for _, a := range call.Common().Args {
						if lc, ok := a.(*ssa.Call); ok && ssau.CallName(lc) == "builtin.len" {
							if sl, ok := lc.Common().Args[0].Type().Underlying().(*types.Slice); ok {
								if b, ok := sl.Elem().Underlying().(*types.Basic); ok && b.Kind() == types.String {
									hasLen = true
								}
							}
						}
					}
					if !hasLen && g != fn {
						return
					}
					for _, a := range call.Common().Args {
						if k, ok := ssau.ConstInt(a); ok {
							pv = k
							pOK = k >= 4
						}
					}
				}
			})
		}
		r.Check(pOK, "O-6", fk+"#protected-prefix-at-least-4", c.P.Pos(fn.Pos()), fmt.Sprintf("the first %d terms are protected", pv), fmt.Sprintf("the protected prefix is %d terms, the property states at least 4", pv))
	}
	su := c.P.Func("internal/database", "Database", "SearchUniversal")
	if su != nil {
		// default cap: the constant stored when TopTermsCap <= 0
		var k int64 = -1
		for _, call := range callsMatching(su, false, func(n string) bool { return strings.HasSuffix(n, "Database).selectTopTerms") }) {
			capv := call.Common().Args[2]
			if phi, ok := capv.(*ssa.Phi); ok {
				for _, e := range phi.Edges {
					if cst, ok := ssau.ConstInt(e); ok {
						k = cst
					}
				}
			}
		}
		r.Check(k >= 10, "O-6", "database.(*Database).SearchUniversal#default-term-cap", c.P.Pos(su.Pos()), fmt.Sprintf("default cap %d", k), fmt.Sprintf("the default term cap is %d, the property states ten content words are all searched", k))
	}
}

// c03IdfTable: field `name` of universalIndex is a map[string]float64 whose
// every update, in BuildUniversalIndex, is table[term] = bm25IDF(idx.N, df)
// inside a range over idx.df with term and df that iteration's key and value.
func c03IdfTable(c *Ctx, name string) bool {
	build := c.P.Func("internal/database", "Database", "BuildUniversalIndex")
	if build == nil {
		return false
	}
	uix := dbPkg + ".universalIndex"
	n := 0
	okAll := true
	for _, fn := range shippedFuncs(c) {
		ssau.ForEachInstr(fn, false, func(in ssa.Instruction) {
			mu, ok := in.(*ssa.MapUpdate)
			if !ok {
				return
			}
			if _, ok := ssau.IsFieldLoad(mu.Map, uix, name); !ok {
				return
			}
			n++
			if fn != build {
				okAll = false
				return
			}
			call, ok := mu.Value.(*ssa.Call)
			if !ok || !strings.HasSuffix(ssau.CallName(call), ".bm25IDF") || len(call.Common().Args) != 2 {
				okAll = false
				return
			}
			if _, ok := ssau.IsFieldLoad(call.Common().Args[0], uix, "N"); !ok {
				okAll = false
			}
			good := false
			for _, l := range ssau.RangeLoops(build) {
				if !l.IsMap || !l.InLoop(mu.Block()) {
					continue
				}
				if _, ok := ssau.IsFieldLoad(l.Over, uix, "df"); !ok {
					continue
				}
				k, isK := mu.Key.(*ssa.Extract)
				v, isV := call.Common().Args[1].(*ssa.Extract)
				if isK && isV && k.Tuple == ssa.Value(l.Next) && k.Index == 1 && v.Tuple == ssa.Value(l.Next) && v.Index == 2 {
					good = true
				}
			}
			if !good {
				okAll = false
			}
		})
	}
	return okAll && n > 0
}

// c03ChoosesAmongParams: fn is a repository function each of whose results is
// one of its own parameters; returns the indices of the parameters returned.
func c03ChoosesAmongParams(fn *ssa.Function) []int {
	if fn == nil || fn.Blocks == nil || fn.Signature.Results().Len() != 1 || !strings.HasPrefix(ssau.FuncName(fn), load.ModulePath) {
		return nil
	}
	set := map[int]bool{}
	ok := true
	var walk func(v ssa.Value, d int)
	walk = func(v ssa.Value, d int) {
		if d > 4 {
			ok = false
			return
		}
		switch x := v.(type) {
		case *ssa.Parameter:
			for i, p := range fn.Params {
				if p == x {
					set[i] = true
				}
			}
		case *ssa.Phi:
			for _, e := range x.Edges {
				walk(e, d+1)
			}
		default:
			ok = false
		}
	}
	for _, ret := range ssau.ReturnsOf(fn) {
		walk(ssau.ResultValue(ret, 0), 0)
	}
	if !ok {
		return nil
	}
	var out []int
	for i := range set {
		out = append(out, i)
	}
	sort.Ints(out)
	return out
}

// c03CountsThroughPick: fn ranges over its slice parameter #li and, per
// element tok, does entry := m[tok]; *pick(&entry)++; m[tok] = entry with pick
// its function parameter #pi. (-1, -1) when fn is not of that form.
func c03CountsThroughPick(fn *ssa.Function) (li, pi int) {
	li, pi = -1, -1
	paramIdx := func(v ssa.Value) int {
		for i, p := range fn.Params {
			if ssa.Value(p) == v {
				return i
			}
		}
		return -1
	}
	for _, l := range ssau.RangeLoops(fn) {
		if l.IsMap || l.Over == nil || paramIdx(l.Over) < 0 {
			continue
		}
		isElem := func(v ssa.Value) bool {
			u, ok := v.(*ssa.UnOp)
			if !ok {
				return false
			}
			ia, ok := u.X.(*ssa.IndexAddr)
			return ok && ia.X == l.Over && ia.Index == l.Index
		}
		ssau.ForEachInstr(fn, false, func(in ssa.Instruction) {
			st, ok := in.(*ssa.Store)
			if !ok || !l.InLoop(st.Block()) {
				return
			}
			pc, ok := st.Addr.(*ssa.Call)
			if !ok || pc.Common().IsInvoke() || paramIdx(pc.Common().Value) < 0 || len(pc.Common().Args) != 1 {
				return
			}
			cell, ok := pc.Common().Args[0].(*ssa.Alloc)
			if !ok || ssau.NamedOf(cell.Type()) != dbPkg+".fieldTF" {
				return
			}
			bo, ok := st.Val.(*ssa.BinOp)
			if !ok || bo.Op != token.ADD {
				return
			}
			if one, ok := ssau.ConstInt(bo.Y); !ok || one != 1 {
				return
			}
			if ld, ok := bo.X.(*ssa.UnOp); !ok || ld.X != ssa.Value(pc) {
				return
			}
			readOK, writeOK := false, false
			for _, ref := range *cell.Referrers() {
				if s2, ok := ref.(*ssa.Store); ok && s2.Addr == ssa.Value(cell) {
					if lk, ok := s2.Val.(*ssa.Lookup); ok && isElem(lk.Index) {
						readOK = true
					}
				}
				if ld, ok := ref.(*ssa.UnOp); ok {
					for _, r2 := range *ld.Referrers() {
						if mu, ok := r2.(*ssa.MapUpdate); ok && mu.Value == ssa.Value(ld) && isElem(mu.Key) && l.InLoop(mu.Block()) {
							writeOK = true
						}
					}
				}
			}
			if readOK && writeOK {
				li, pi = paramIdx(l.Over), paramIdx(pc.Common().Value)
			}
		})
	}
	return
}

// c03TextParams: the text v is made of parameters of its function only
// (a parameter, strings.Join of one, a choice among them); the parameters.
func c03TextParams(v ssa.Value, d int) ([]*ssa.Parameter, bool) {
	if d > 5 {
		return nil, false
	}
	switch x := v.(type) {
	case *ssa.Parameter:
		return []*ssa.Parameter{x}, true
	case *ssa.ChangeType:
		return c03TextParams(x.X, d+1)
	case *ssa.Phi:
		var out []*ssa.Parameter
		for _, e := range x.Edges {
			ps, ok := c03TextParams(e, d+1)
			if !ok {
				return nil, false
			}
			out = append(out, ps...)
		}
		return out, true
	case *ssa.Call:
		if ssau.CallName(x) == "strings.Join" {
			return c03TextParams(x.Common().Args[0], d+1)
		}
		if idx := c03ChoosesAmongParams(x.Common().StaticCallee()); len(idx) > 0 {
			var out []*ssa.Parameter
			for _, i := range idx {
				ps, ok := c03TextParams(x.Common().Args[i], d+1)
				if !ok {
					return nil, false
				}
				out = append(out, ps...)
			}
			return out, true
		}
	}
	return nil, false
}

// c03CountsThroughBump: fn ranges over its list parameter #li and, per
// element, reads the entry of a map of fieldTF under the element, hands its
// address to the function parameter #bi and stores the entry back under the
// same element: countTokens(m, tokens, func(tf *fieldTF) { tf.cmd++ }).
func c03CountsThroughBump(fn *ssa.Function) (li, bi int) {
	li, bi = -1, -1
	paramIdx := func(v ssa.Value) int {
		for i, p := range fn.Params {
			if ssa.Value(p) == v {
				return i
			}
		}
		return -1
	}
	for _, l := range ssau.RangeLoops(fn) {
		if l.IsMap || l.Over == nil || paramIdx(l.Over) < 0 {
			continue
		}
		isElem := func(v ssa.Value) bool {
			u, ok := v.(*ssa.UnOp)
			if !ok {
				return false
			}
			ia, ok := u.X.(*ssa.IndexAddr)
			return ok && ia.X == l.Over && ia.Index == l.Index
		}
		ssau.ForEachInstr(fn, false, func(in ssa.Instruction) {
			bc, ok := in.(*ssa.Call)
			if !ok || !l.InLoop(bc.Block()) || bc.Common().IsInvoke() || paramIdx(bc.Common().Value) < 0 || len(bc.Common().Args) != 1 {
				return
			}
			cell, ok := bc.Common().Args[0].(*ssa.Alloc)
			if !ok || ssau.NamedOf(cell.Type()) != dbPkg+".fieldTF" {
				return
			}
			readOK, writeOK, other := false, false, false
			for _, ref := range *cell.Referrers() {
				switch x := ref.(type) {
				case *ssa.Store:
					if x.Addr == ssa.Value(cell) {
						if lk, ok := x.Val.(*ssa.Lookup); ok && isElem(lk.Index) && (x.Block() == bc.Block() || x.Block().Dominates(bc.Block())) {
							readOK = true
						} else {
							other = true
						}
					}
				case *ssa.UnOp:
					for _, r2 := range *x.Referrers() {
						if mu, ok := r2.(*ssa.MapUpdate); ok && mu.Value == ssa.Value(x) && isElem(mu.Key) && l.InLoop(mu.Block()) && (bc.Block() == mu.Block() || bc.Block().Dominates(mu.Block())) {
							writeOK = true
						}
					}
				case *ssa.Call:
					if x != bc {
						other = true
					}
				case *ssa.FieldAddr:
					other = true
				}
			}
			// every iteration reaches the call and the write-back
			if readOK && writeOK && !other && bc.Block() == l.Body {
				li, bi = paramIdx(l.Over), paramIdx(bc.Common().Value)
			}
		})
	}
	return
}

// c03BumpedField: v is a function (literal) of one *fieldTF parameter whose
// whole effect is <param>.<field>++ for one field; the field's name.
func c03BumpedField(v ssa.Value) string {
	var g *ssa.Function
	switch x := v.(type) {
	case *ssa.Function:
		g = x
	case *ssa.MakeClosure:
		g, _ = x.Fn.(*ssa.Function)
	}
	if g == nil || len(g.Blocks) != 1 || len(g.Params) != 1 || ssau.NamedOf(g.Params[0].Type()) != dbPkg+".fieldTF" {
		return ""
	}
	name, n := "", 0
	for _, in := range g.Blocks[0].Instrs {
		switch x := in.(type) {
		case *ssa.Store:
			n++
			fa, ok := x.Addr.(*ssa.FieldAddr)
			if !ok || fa.X != ssa.Value(g.Params[0]) {
				return ""
			}
			bo, ok := x.Val.(*ssa.BinOp)
			if !ok || bo.Op != token.ADD {
				return ""
			}
			if one, ok := ssau.ConstInt(bo.Y); !ok || one != 1 {
				return ""
			}
			if ld, ok := bo.X.(*ssa.UnOp); !ok || ld.X != ssa.Value(fa) && !sameFieldAddr(ld.X, fa) {
				return ""
			}
			name = ssau.FieldName(fa)
		case *ssa.Call, *ssa.MapUpdate, *ssa.Go, *ssa.Defer:
			return ""
		}
	}
	if n != 1 {
		return ""
	}
	return name
}

// c03CountsThroughTagMethod: fn ranges over its list parameter #li and, per
// element, reads the entry of a map of fieldTF under the element, calls a
// method of fieldTF on its address with the parameter #ti of fn, and stores
// the entry back under the same element; the method.
func c03CountsThroughTagMethod(fn *ssa.Function) (li, ti int, meth *ssa.Function) {
	li, ti = -1, -1
	paramIdx := func(v ssa.Value) int {
		for i, p := range fn.Params {
			if ssa.Value(p) == v {
				return i
			}
		}
		return -1
	}
	for _, l := range ssau.RangeLoops(fn) {
		if l.IsMap || l.Over == nil || paramIdx(l.Over) < 0 {
			continue
		}
		isElem := func(v ssa.Value) bool {
			u, ok := v.(*ssa.UnOp)
			if !ok {
				return false
			}
			ia, ok := u.X.(*ssa.IndexAddr)
			return ok && ia.X == l.Over && ia.Index == l.Index
		}
		ssau.ForEachInstr(fn, false, func(in ssa.Instruction) {
			mc, ok := in.(*ssa.Call)
			if !ok || mc.Block() != l.Body || len(mc.Common().Args) != 2 {
				return
			}
			g := mc.Common().StaticCallee()
			if g == nil || g.Signature.Recv() == nil || ssau.NamedOf(g.Signature.Recv().Type()) != dbPkg+".fieldTF" || paramIdx(mc.Common().Args[1]) < 0 {
				return
			}
			cell, ok := mc.Common().Args[0].(*ssa.Alloc)
			if !ok {
				return
			}
			readOK, writeOK, other := false, false, false
			for _, ref := range *cell.Referrers() {
				switch x := ref.(type) {
				case *ssa.Store:
					if x.Addr == ssa.Value(cell) {
						if lk, ok := x.Val.(*ssa.Lookup); ok && isElem(lk.Index) && x.Block() == mc.Block() {
							readOK = true
						} else {
							other = true
						}
					}
				case *ssa.UnOp:
					for _, r2 := range *x.Referrers() {
						if mu, ok := r2.(*ssa.MapUpdate); ok && mu.Value == ssa.Value(x) && isElem(mu.Key) && mu.Block() == mc.Block() {
							writeOK = true
						}
					}
				case *ssa.Call:
					if x != mc {
						other = true
					}
				case *ssa.FieldAddr:
					other = true
				}
			}
			if readOK && writeOK && !other {
				li, ti, meth = paramIdx(l.Over), paramIdx(mc.Common().Args[1]), g
			}
		})
	}
	return
}

// c03TagMethodTable: meth is a method of *fieldTF that switches on its
// (integer or string) parameter and, under each constant, increments exactly
// one field of the receiver; constant (as written in SSA) -> field name.
func c03TagMethodTable(meth *ssa.Function) map[string]string {
	if meth == nil || len(meth.Params) != 2 {
		return nil
	}
	out := map[string]string{}
	for _, iff := range ssau.Ifs(meth) {
		op, x, y, ok := ssau.CondOf(iff.Cond)
		if !ok || op != token.EQL {
			continue
		}
		kv := y
		if x != ssa.Value(meth.Params[1]) {
			if y != ssa.Value(meth.Params[1]) {
				continue
			}
			kv = x
		}
		k, isC := kv.(*ssa.Const)
		if !isC || k.Value == nil {
			continue
		}
		tb := iff.Block().Succs[0]
		var incd []string
		for _, in := range tb.Instrs {
			st, ok := in.(*ssa.Store)
			if !ok {
				continue
			}
			fa, ok := st.Addr.(*ssa.FieldAddr)
			if !ok || fa.X != ssa.Value(meth.Params[0]) {
				continue
			}
			if bo, ok := st.Val.(*ssa.BinOp); ok && bo.Op == token.ADD {
				if one, ok := ssau.ConstInt(bo.Y); ok && one == 1 {
					incd = append(incd, ssau.FieldName(fa))
				}
			}
		}
		if len(incd) != 1 {
			return nil
		}
		out[k.Value.ExactString()] = incd[0]
	}
	// nothing else is written
	nStores := 0
	ssau.ForEachInstr(meth, false, func(in ssa.Instruction) {
		if _, ok := in.(*ssa.Store); ok {
			nStores++
		}
	})
	if nStores != len(out) {
		return nil
	}
	return out
}

// c03PickedField: v is a function (literal) whose every result is the
// address of one field of its first parameter; the field's name.
func c03PickedField(v ssa.Value) string {
	var g *ssa.Function
	switch x := v.(type) {
	case *ssa.Function:
		g = x
	case *ssa.MakeClosure:
		g, _ = x.Fn.(*ssa.Function)
	}
	if g == nil || g.Blocks == nil || len(g.Params) != 1 {
		return ""
	}
	name := ""
	for _, ret := range ssau.ReturnsOf(g) {
		fa, ok := ssau.ResultValue(ret, 0).(*ssa.FieldAddr)
		if !ok || fa.X != ssa.Value(g.Params[0]) || ssau.NamedOf(fa.X.Type()) != dbPkg+".fieldTF" {
			return ""
		}
		if name != "" && name != ssau.FieldName(fa) {
			return ""
		}
		name = ssau.FieldName(fa)
	}
	return name
}

// builderFamily: the index builder and the steps it is split into.
type builderFamily struct {
	list []*ssa.Function
	in   map[*ssa.Function]bool
	site map[*ssa.Function]*ssa.Call // the single call site of a step, when it has exactly one
}

// c03BuilderFamily: build, plus every function of the database package
// that is called from the family and from nowhere else in shipped code.
func c03BuilderFamily(c *Ctx, build *ssa.Function) *builderFamily {
	bf := &builderFamily{in: map[*ssa.Function]bool{build: true}, site: map[*ssa.Function]*ssa.Call{}}
	bf.list = []*ssa.Function{build}
	cg := c.P.CallGraph()
	for changed := true; changed; {
		changed = false
		for _, m := range append([]*ssa.Function(nil), bf.list...) {
			ssau.ForEachInstr(m, true, func(in ssa.Instruction) {
				call, ok := in.(*ssa.Call)
				if !ok {
					return
				}
				g := call.Common().StaticCallee()
				if g == nil || bf.in[g] || g.Parent() != nil || g.Blocks == nil || !c.P.IsRepoFunc(g) || g.Pkg != build.Pkg {
					return
				}
				if obj := g.Object(); obj != nil && obj.Exported() {
					return // callable from outside the package
				}
				node := cg.Nodes[g]
				if node == nil {
					return
				}
				var sites []*ssa.Call
				for _, e := range node.In {
					if !isShipped(c, e.Caller.Func) {
						continue
					}
					root := e.Caller.Func
					for root.Parent() != nil {
						root = root.Parent()
					}
					if !bf.in[root] {
						return
					}
					if cs, ok := e.Site.(*ssa.Call); ok {
						sites = append(sites, cs)
					} else {
						return // go/defer: not a plain step
					}
				}
				if len(sites) == 0 {
					return
				}
				bf.in[g] = true
				bf.list = append(bf.list, g)
				if len(sites) == 1 {
					bf.site[g] = sites[0]
				}
				changed = true
			})
		}
	}
	return bf
}

// resolve: a parameter of a step with one call site is the argument there.
func (bf *builderFamily) resolve(v ssa.Value) ssa.Value {
	for i := 0; i < 6; i++ {
		p, ok := v.(*ssa.Parameter)
		if !ok {
			return v
		}
		g := p.Parent()
		site := bf.site[g]
		if site == nil {
			return v
		}
		idx := -1
		for k, q := range g.Params {
			if q == p {
				idx = k
			}
		}
		if idx < 0 || idx >= len(site.Common().Args) {
			return v
		}
		v = site.Common().Args[idx]
	}
	return v
}

// inLoop: the instruction runs inside l, directly or through the single
// call sites of the steps that contain it.
func (bf *builderFamily) inLoop(l *ssau.RangeLoop, in ssa.Instruction) bool {
	for i := 0; i < 6 && in != nil; i++ {
		if l.InLoop(in.Block()) {
			return true
		}
		site := bf.site[in.Parent()]
		if site == nil {
			return false
		}
		in = site
	}
	return false
}

// c03TableRows: every argument is (a conversion of) a field of the element
// variable of a range over a local array literal of structs. Returns, per
// row of the literal, the values the row stores in those fields (in argument
// order), and a predicate recognising a read of the element field the first
// argument reads. nil when the arguments are not of that form, or when a row
// or a field of a row is not a single plain store.
func c03TableRows(args []ssa.Value) ([][]ssa.Value, func(ssa.Value) bool) {
	var elem *ssa.Alloc
	var fields []int
	elemField := func(v ssa.Value) (*ssa.Alloc, int, bool) {
		if cv, ok := v.(*ssa.Convert); ok {
			v = cv.X
		}
		u, ok := v.(*ssa.UnOp)
		if !ok || u.Op != token.MUL {
			return nil, 0, false
		}
		fa, ok := u.X.(*ssa.FieldAddr)
		if !ok {
			return nil, 0, false
		}
		al, ok := fa.X.(*ssa.Alloc)
		return al, fa.Field, ok
	}
	for _, a := range args {
		al, f, ok := elemField(a)
		if !ok || (elem != nil && al != elem) {
			return nil, nil
		}
		elem = al
		fields = append(fields, f)
	}
	if elem == nil {
		return nil, nil
	}
	// elem = table[i], table = *literal
	var table *ssa.Alloc
	for _, ref := range *elem.Referrers() {
		st, ok := ref.(*ssa.Store)
		if !ok || st.Addr != ssa.Value(elem) {
			continue
		}
		ix, ok := st.Val.(*ssa.Index)
		if !ok || table != nil {
			return nil, nil
		}
		ld, ok := ix.X.(*ssa.UnOp)
		if !ok {
			return nil, nil
		}
		table, _ = ld.X.(*ssa.Alloc)
		if table == nil {
			return nil, nil
		}
	}
	if table == nil {
		return nil, nil
	}
	arr, ok := table.Type().Underlying().(*types.Pointer).Elem().Underlying().(*types.Array)
	if !ok {
		return nil, nil
	}
	rows := make([][]ssa.Value, arr.Len())
	singleStore := func(addr ssa.Value) ssa.Value {
		var val ssa.Value
		n := 0
		for _, ref := range *addr.(interface{ Referrers() *[]ssa.Instruction }).Referrers() {
			if st, ok := ref.(*ssa.Store); ok && st.Addr == addr {
				n++
				val = st.Val
			}
		}
		if n != 1 {
			return nil
		}
		return val
	}
	for _, ref := range *table.Referrers() {
		ia, ok := ref.(*ssa.IndexAddr)
		if !ok {
			continue
		}
		k, isC := ssau.ConstInt(ia.Index)
		if !isC || k < 0 || k >= arr.Len() || rows[k] != nil {
			return nil, nil
		}
		rv := singleStore(ia)
		ld, ok := rv.(*ssa.UnOp)
		if !ok {
			return nil, nil
		}
		rowCell, ok := ld.X.(*ssa.Alloc)
		if !ok {
			return nil, nil
		}
		byField := map[int]ssa.Value{}
		for _, r2 := range *rowCell.Referrers() {
			if fa, ok := r2.(*ssa.FieldAddr); ok {
				if v := singleStore(fa); v != nil {
					byField[fa.Field] = v
				}
			}
		}
		row := make([]ssa.Value, len(fields))
		for i, f := range fields {
			if byField[f] == nil {
				return nil, nil
			}
			row[i] = byField[f]
		}
		rows[k] = row
	}
	for _, row := range rows {
		if row == nil {
			return nil, nil
		}
	}
	return rows, func(x ssa.Value) bool {
		al, f, ok := elemField(x)
		return ok && al == elem && f == fields[0]
	}
}

// withSteps: fn and the repository functions of its package it calls
// statically, to the given depth (the steps a function is split into).
func withSteps(c *Ctx, fn *ssa.Function, depth int) []*ssa.Function {
	out := []*ssa.Function{fn}
	seen := map[*ssa.Function]bool{fn: true}
	frontier := []*ssa.Function{fn}
	for d := 0; d < depth; d++ {
		var next []*ssa.Function
		for _, m := range frontier {
			ssau.ForEachInstr(m, true, func(in ssa.Instruction) {
				if call, ok := in.(*ssa.Call); ok {
					if g := call.Common().StaticCallee(); g != nil && !seen[g] && g.Blocks != nil && g.Parent() == nil && c.P.IsRepoFunc(g) && g.Pkg == fn.Pkg {
						seen[g] = true
						out = append(out, g)
						next = append(next, g)
					}
				}
			})
		}
		frontier = next
	}
	return out
}
