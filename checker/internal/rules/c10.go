package rules

import (
	"fmt"
	"os"
	"sort"

	"golang.org/x/tools/go/ssa"

	"wtfverif/checker/internal/bounds"
	"wtfverif/checker/internal/load"
	"wtfverif/checker/internal/symx"
)

func init() {
	register(&Rule{
		Prop:        "C10",
		Explanation: "draft",
		Run:         runC10,
	})
}

// c10Roots: load, every search entry point, suggestions, recovery searches.
func c10Roots(c *Ctx) []*ssa.Function {
	var roots []*ssa.Function
	entries, _ := c01Entries(c)
	roots = append(roots, entries...)
	for _, spec := range [][3]string{
		{"internal/database", "", "LoadDatabase"},
		{"internal/database", "", "LoadDatabaseWithPersonal"},
		{"internal/database", "Database", "Search"},
		{"internal/database", "Database", "SearchUniversal"},
		{"internal/database", "Database", "SearchWithOptions"},
		{"internal/database", "Database", "SearchWithPipelineOptions"},
		{"internal/database", "Database", "SearchWithFuzzy"},
		{"internal/database", "Database", "SearchWithNLP"},
		{"internal/database", "Database", "GetSuggestions"},
		{"internal/recovery", "SearchRecovery", "RecoverFromSearchFailure"},
	} {
		if fn := c.P.Func(spec[0], spec[1], spec[2]); c.R.Anchor("O-1", spec[0]+"."+spec[2], fn != nil) {
			roots = append(roots, fn)
		}
	}
	return roots
}

func runC10(c *Ctx) {
	r := c.R
	r.Rule("O-1", "anchors")
	r.Rule("O-6", "implicit run-time checks cannot fail")
	roots := c10Roots(c)
	scope := reachClosure(c, roots)
	sx := symx.New(c.P.IsRepoFunc)
	eng := bounds.New(sx, c.P.CallGraph(), c.P.IsRepoFunc)
	for _, fn := range roots {
		eng.Roots[fn] = true
	}
	bounds.Debug = os.Getenv("WTF_DEBUG_BOUNDS") != ""
	inScope := map[*ssa.Function]bool{}
	for _, fn := range scope {
		inScope[fn] = true
	}
	eng.InScope = func(fn *ssa.Function) bool { return isShipped(c, fn) }
	k := newC10k(c, eng)
	eng.NonNegOf = k.nonNegOf
	eng.BoundedOf = k.boundedOf
	eng.UpperOf = k.upperOf
	invs := k.invariants()
	listCovers, listCheck := k.listEntryInvariant()
	used := map[string]int{}
	kinds := map[string][2]int{}
	ord := newOrdinal()
	for _, fn := range scope {
		if fn.Synthetic != "" {
			continue
		}
		sites := eng.Sites(fn)
		sort.SliceStable(sites, func(i, j int) bool { return sites[i].Instr.Pos() < sites[j].Instr.Pos() })
		for _, s := range sites {
			kd := kinds[s.Kind]
			kd[0]++
			key := ord.next(load.FuncKey(fn) + "#" + s.Kind)
			if !s.OK && s.X != nil && !s.NeedNonNeg && s.NeedLT {
				for _, inv := range invs {
					if inv.covers(eng.Of(fn), s) {
						s.OK, s.How = true, "index >= 0 proven; index < len by invariant "+inv.id
						used[inv.id]++
						break
					}
				}
			}
			if ta, ok := s.Instr.(*ssa.TypeAssert); ok && !s.OK && listCovers(ta) {
				s.OK, s.How = true, "by invariant list-holds-entries"
				used["list-holds-entries"]++
			}
			if s.OK {
				kd[1]++
				r.OK("O-6", key, c.P.Pos(s.Instr.Pos()), s.Desc+": "+s.How)
			} else {
				r.Bad("O-6", key, c.P.Pos(s.Instr.Pos()), s.Desc+": "+s.Why)
			}
			kinds[s.Kind] = kd
		}
	}
	// the invariants relied on are themselves checked at their construction sites
	for _, inv := range invs {
		if used[inv.id] == 0 {
			continue
		}
		ok, detail := inv.check()
		r.Check(ok, "O-6", "invariant:"+inv.id, "", fmt.Sprintf("%s (justifies %d accesses; construction sites re-checked)", inv.text, used[inv.id]), "the data-structure invariant that "+fmt.Sprint(used[inv.id])+" accesses rely on no longer follows from the construction sites: "+detail+" ["+inv.text+"]")
	}
	if used["list-holds-entries"] > 0 {
		ok, detail := listCheck()
		r.Check(ok, "O-6", "invariant:list-holds-entries", "", "every element of the cache's list is a *cache.Entry", detail)
	}
	r.Analysed["invariant_uses"] = used
	for kk, v := range kinds {
		r.Analysed["sites_"+kk] = v[0]
		r.Analysed["sites_"+kk+"_proven"] = v[1]
	}
	r.Analysed["functions_in_scope"] = len(scope)
}
