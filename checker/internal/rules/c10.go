package rules

import (
	"fmt"
	"os"
	"sort"

	"golang.org/x/tools/go/ssa"

	"wtfverif/checker/internal/bounds"
	"wtfverif/checker/internal/load"
	"wtfverif/checker/internal/symx"
)

func init() {
	register(&Rule{
		Prop:        "C10",
		Explanation: "draft",
		Run:         runC10,
	})
}

// c10Roots: load, every search entry point, suggestions, recovery searches.
func c10Roots(c *Ctx) []*ssa.Function {
	var roots []*ssa.Function
	entries, _ := c01Entries(c)
	roots = append(roots, entries...)
	for _, spec := range [][3]string{
		{"internal/database", "", "LoadDatabase"},
		{"internal/database", "", "LoadDatabaseWithPersonal"},
		{"internal/database", "Database", "Search"},
		{"internal/database", "Database", "SearchUniversal"},
		{"internal/database", "Database", "SearchWithOptions"},
		{"internal/database", "Database", "SearchWithPipelineOptions"},
		{"internal/database", "Database", "SearchWithFuzzy"},
		{"internal/database", "Database", "SearchWithNLP"},
		{"internal/database", "Database", "GetSuggestions"},
		{"internal/recovery", "SearchRecovery", "RecoverFromSearchFailure"},
	} {
		if fn := c.P.Func(spec[0], spec[1], spec[2]); c.R.Anchor("O-1", spec[0]+"."+spec[2], fn != nil) {
			roots = append(roots, fn)
		}
	}
	return roots
}

func runC10(c *Ctx) {
	r := c.R
	r.Rule("O-1", "anchors")
	r.Rule("O-6", "implicit run-time checks cannot fail")
	roots := c10Roots(c)
	scope := reachClosure(c, roots)
	sx := symx.New(c.P.IsRepoFunc)
	eng := bounds.New(sx, c.P.CallGraph(), c.P.IsRepoFunc)
	for _, fn := range roots {
		eng.Roots[fn] = true
	}
	bounds.Debug = os.Getenv("WTF_DEBUG_BOUNDS") != ""
	inScope := map[*ssa.Function]bool{}
	for _, fn := range scope {
		inScope[fn] = true
	}
	eng.InScope = func(fn *ssa.Function) bool { return isShipped(c, fn) }
	kinds := map[string][2]int{}
	ord := newOrdinal()
	for _, fn := range scope {
		if fn.Synthetic != "" {
			continue
		}
		sites := eng.Sites(fn)
		sort.SliceStable(sites, func(i, j int) bool { return sites[i].Instr.Pos() < sites[j].Instr.Pos() })
		for _, s := range sites {
			k := kinds[s.Kind]
			k[0]++
			key := ord.next(load.FuncKey(fn) + "#" + s.Kind)
			if s.OK {
				k[1]++
				r.OK("O-6", key, c.P.Pos(s.Instr.Pos()), s.Desc+": "+s.How)
			} else {
				r.Bad("O-6", key, c.P.Pos(s.Instr.Pos()), s.Desc+": "+s.Why)
			}
			kinds[s.Kind] = k
		}
	}
	for k, v := range kinds {
		r.Analysed["sites_"+k] = v[0]
		fmt.Printf("census %s: %d sites, %d proven\n", k, v[0], v[1])
	}
	r.Analysed["functions_in_scope"] = len(scope)
}
