package rules

import (
	"fmt"
	"go/token"
	"os"
	"regexp"
	"sort"
	"strings"

	"golang.org/x/tools/go/ssa"

	"wtfverif/checker/internal/bounds"
	"wtfverif/checker/internal/interval"
	"wtfverif/checker/internal/load"
	"wtfverif/checker/internal/ssau"
	"wtfverif/checker/internal/symx"
)

func init() {
	register(&Rule{
		Prop:        "C10",
		Explanation: "Totality decided as the absence of every way the engine can stop other than by returning, over the VTA call-graph closure of the load functions, every search entry point, GetSuggestions and the recovery searches: (O-1) no reachable panic/os.Exit/log.Fatal; (O-2) every MustCompile pattern is a constant that compiles; (O-3) every string handed to the third-party fuzzy matcher as a candidate comes out of a NUL-removing function (the matcher indexes past its pattern on a NUL); (O-4) LoadDatabase hands each failing step's error to the classifier under its own operation, the classifier gives a decode failure the parse verdict before looking at anything else and recognises a missing file through the error chain, and a successful read+decode returns the database with a nil error; (O-5) every reachable loop is a range loop or a counted loop towards a loop-invariant bound and the reachable call graph is acyclic; (O-6) every implicit run-time check (index, slice bound, make size, integer divisor, single-result type assertion) is proven safe for all parameter values by overflow-aware interval analysis with parameter ranges gathered from all call sites, symbolic index<len facts from guards and loop headers matched through versioned renderings, location-class invariants (what is ever stored in a field, in the keys/values of the maps of one origin, in a local slice), library contracts (fuzzy Match.Index < len(data), sort.Slice callback indices), and six named data-structure invariants whose construction sites are re-checked on every run; (O-7) no reference the code itself treats as possibly absent — a field it compares with nil somewhere, a value merging a nil constant, a nil argument — is used as if present: every use lies behind a nil test of the value, or a must-fact for that field of that object made by a test, a predicate helper, a fresh store or an establishing call and killed by any possibly-nil store, with helpers relying on what all their call sites established.",
		NotDecided:  []string{"nil dereferences of references that no code ever tests for nil, and of possibly absent references after they travelled through memory cells, slices or maps (O-7 decides the direct uses of fields the code tests, merged nil constants and nil arguments)", "panics inside third-party code other than the matcher's NUL defect (yaml decoder, cobra)", "running time beyond loop shape: no bound in seconds is derived", "memory exhaustion by a large but well-formed database file"},
		Assumptions: []string{"no slice, string or map holds more than 2^48 elements", "a counter stepped by a small constant does not wrap (2^43 steps are not reachable)", "objects are not used before their constructor returns or concurrently with it", "fuzzy.Find returns Match.Index in [0, len(data)); sort.Slice calls less only with valid indices", "the index structures are rebuilt whenever the command list changes (decided under C03)"},
		Run:         runC10,
	})
}

// c10Roots: load, every search entry point, suggestions, recovery searches.
func c10Roots(c *Ctx) []*ssa.Function {
	var roots []*ssa.Function
	entries, _ := c01Entries(c)
	roots = append(roots, entries...)
	for _, spec := range [][3]string{
		{"internal/database", "", "LoadDatabase"},
		{"internal/database", "", "LoadDatabaseWithPersonal"},
		{"internal/database", "Database", "Search"},
		{"internal/database", "Database", "SearchUniversal"},
		{"internal/database", "Database", "SearchWithOptions"},
		{"internal/database", "Database", "SearchWithPipelineOptions"},
		{"internal/database", "Database", "SearchWithFuzzy"},
		{"internal/database", "Database", "SearchWithNLP"},
		{"internal/database", "Database", "GetSuggestions"},
		{"internal/recovery", "SearchRecovery", "RecoverFromSearchFailure"},
	} {
		if fn := c.P.Func(spec[0], spec[1], spec[2]); c.R.Anchor("O-1", spec[0]+"."+spec[2], fn != nil) {
			roots = append(roots, fn)
		}
	}
	return roots
}

func runC10(c *Ctx) {
	r := c.R
	r.Rule("O-1", "no deliberate crash: no call of panic, os.Exit, log.Fatal*/Panic* or runtime.Goexit is reachable from load, a search entry point, suggestions or the recovery searches")
	r.Rule("O-2", "every regular expression compiled with MustCompile anywhere in shipped code is a constant that compiles (RE2: matching is linear in the input)")
	r.Rule("O-3", "every candidate string handed to the third-party fuzzy matcher has passed a NUL-removing function: the matcher indexes past its pattern on a NUL inside a candidate")
	r.Rule("O-4", "load errors are classified by what failed: a failed read that is fs.ErrNotExist is reported with the not-found constructor, a failed decode always with the parse constructor, and a successful read and decode returns the database with a nil error")
	r.Rule("O-5", "no runaway: every loop reachable from the entry points is a range loop or a counted loop whose counter moves towards a loop-invariant bound, and the reachable call graph has no recursion")
	r.Rule("O-6", "no implicit run-time check can fail: every index, slice bound, make size, integer division and single-result type assertion reachable from the entry points is proven safe for all parameter values (overflow-aware intervals with parameter ranges from the call sites; symbolic index < len facts from guards and loop headers; location-class invariants; named data-structure invariants re-checked at their construction sites)")
	roots := c10Roots(c)
	scope := reachClosure(c, roots)
	r.Floor("O-1", "functions reachable from the entry points", len(scope), 100)
	c10Exits(c, scope)
	c10Regex(c)
	c10Classify(c)
	c10Termination(c, scope)
	k := c10ImplicitChecks(c, "O-6", roots, scope, nil, nil)
	c10Matcher(c, k)
	r.Rule("O-7", "no reference the code itself treats as possibly absent is used as if present: for every struct field of a repository type that shipped code compares with nil, every pointer/map/function value that merges a nil constant and every nil argument, each field access, load or store through it, assignment into it (map), call of it, library method on it, and hand-over to a function that needs it lies behind a finding that it is present — a nil test of that value, or for a field a nil test of the same field of the same object (directly or through a predicate helper that answers true only then), a store of a fresh object or a call that stores one on all its returns, with no possibly-nil store in between; helpers may rely on what every one of their call sites established")
	nf, no := nilOptRun(c, "O-7", nil, true, nil)
	r.Floor("O-7", "fields the code tests for nil", nf, 6)
	r.Floor("O-7", "functions using a possibly absent reference", no, 12)
}

// c10ImplicitChecks proves every implicit run-time check of the functions in
// scope (rule id given; also used by C17 for the CLI layer). skip, when not
// nil, excludes functions already covered elsewhere.
func c10ImplicitChecks(c *Ctx, rule string, roots, scope []*ssa.Function, skip map[*ssa.Function]bool, lenLo func(*bounds.Fn, ssa.Value) (int64, bool)) *c10k {
	r := c.R
	sx := symx.New(c.P.IsRepoFunc)
	eng := bounds.New(sx, c.P.CallGraph(), c.P.IsRepoFunc)
	for _, fn := range roots {
		eng.Roots[fn] = true
	}
	bounds.Debug = os.Getenv("WTF_DEBUG_BOUNDS") != ""
	eng.InScope = func(fn *ssa.Function) bool { return isShipped(c, fn) }
	k := newC10k(c, eng)
	eng.NonNegOf = k.nonNegOf
	eng.BoundedOf = k.boundedOf
	eng.UpperOf = k.upperOf
	if lenLo != nil {
		prev := eng.LenLo
		eng.LenLo = func(f *bounds.Fn, x ssa.Value) (int64, bool) {
			if v, ok := lenLo(f, x); ok {
				return v, true
			}
			if prev != nil {
				return prev(f, x)
			}
			return 0, false
		}
	}
	invs := k.invariants()
	listCovers, listCheck := k.listEntryInvariant()
	used := map[string]int{}
	kinds := map[string][2]int{}
	ord := newOrdinal()
	for _, fn := range scope {
		if fn.Synthetic != "" || skip[fn] {
			continue
		}
		sites := eng.Sites(fn)
		sort.SliceStable(sites, func(i, j int) bool { return sites[i].Instr.Pos() < sites[j].Instr.Pos() })
		for _, s := range sites {
			kd := kinds[s.Kind]
			kd[0]++
			key := ord.next(load.FuncKey(fn) + "#" + s.Kind)
			if !s.OK && s.X != nil && !s.NeedNonNeg && s.NeedLT {
				for _, inv := range invs {
					if inv.covers(eng.Of(fn), s) {
						s.OK, s.How = true, "index >= 0 proven; index < len by invariant "+inv.id
						used[inv.id]++
						break
					}
				}
			}
			if ta, ok := s.Instr.(*ssa.TypeAssert); ok && !s.OK && listCovers(ta) {
				s.OK, s.How = true, "by invariant list-holds-entries"
				used["list-holds-entries"]++
			}
			if s.OK {
				kd[1]++
				r.OK(rule, key, c.P.Pos(s.Instr.Pos()), s.Desc+": "+s.How)
			} else {
				r.Bad(rule, key, c.P.Pos(s.Instr.Pos()), s.Desc+": "+s.Why)
			}
			kinds[s.Kind] = kd
		}
	}
	// the invariants relied on are themselves checked at their construction sites
	for _, inv := range invs {
		if used[inv.id] == 0 {
			continue
		}
		ok, detail := inv.check()
		r.Check(ok, rule, "invariant:"+inv.id, "", fmt.Sprintf("%s (justifies %d accesses; construction sites re-checked)", inv.text, used[inv.id]), "the data-structure invariant that "+fmt.Sprint(used[inv.id])+" accesses rely on no longer follows from the construction sites: "+detail+" ["+inv.text+"]")
	}
	if used["list-holds-entries"] > 0 {
		ok, detail := listCheck()
		r.Check(ok, rule, "invariant:list-holds-entries", "", "every element of the cache's list is a *cache.Entry", detail)
	}
	r.Analysed["invariant_uses"] = used
	for kk, v := range kinds {
		r.Analysed["sites_"+kk] = v[0]
		r.Analysed["sites_"+kk+"_proven"] = v[1]
	}
	r.Analysed["functions_in_scope"] = len(scope)
	return k
}

// c10Exits: O-1.
func c10Exits(c *Ctx, scope []*ssa.Function) {
	r := c.R
	isExit := func(n string) bool {
		switch {
		case n == "builtin.panic", n == "os.Exit", n == "runtime.Goexit":
			return true
		case strings.HasPrefix(n, "log.Fatal"), strings.HasPrefix(n, "log.Panic"):
			return true
		case strings.HasPrefix(n, "(*log.Logger).Fatal"), strings.HasPrefix(n, "(*log.Logger).Panic"):
			return true
		}
		return false
	}
	n := 0
	for _, fn := range scope {
		ord := newOrdinal()
		ssau.ForEachInstr(fn, false, func(in ssa.Instruction) {
			if pn, ok := in.(*ssa.Panic); ok {
				n++
				r.Bad("O-1", ord.next(load.FuncKey(fn)+"#panic"), c.P.Pos(pn.Pos()), "an explicit panic is reachable from a load or search entry point")
				return
			}
			if call := ssau.AsCall(in); call != nil && isExit(ssau.CallName(call)) {
				n++
				r.Bad("O-1", ord.next(load.FuncKey(fn)+"#"+ssau.CallName(call)), c.P.Pos(in.Pos()), ssau.CallName(call)+" is reachable from a load or search entry point: the engine would end the process instead of returning an error")
			}
		})
	}
	// positive control: the matcher recognises the exits that do exist in shipped code
	control := 0
	for _, fn := range shippedFuncs(c) {
		ssau.ForEachInstr(fn, false, func(in ssa.Instruction) {
			if _, ok := in.(*ssa.Panic); ok {
				control++
			}
			if call := ssau.AsCall(in); call != nil && isExit(ssau.CallName(call)) {
				control++
			}
		})
	}
	r.Floor("O-1", "process exits recognised somewhere in shipped code (control)", control, 1)
	if n == 0 {
		r.OK("O-1", "engine#no-deliberate-crash", "", fmt.Sprintf("%d reachable functions: none panics or exits (%d such calls exist elsewhere in shipped code)", len(scope), control))
	}
}

// c10Regex: O-2.
func c10Regex(c *Ctx) {
	r := c.R
	n := 0
	for _, fn := range shippedFuncs(c) {
		ord := newOrdinal()
		ssau.ForEachInstr(fn, false, func(in ssa.Instruction) {
			call, ok := in.(*ssa.Call)
			if !ok {
				return
			}
			nm := ssau.CallName(call)
			if nm != "regexp.MustCompile" && nm != "regexp.MustCompilePOSIX" {
				return
			}
			n++
			key := ord.next(load.FuncKey(fn) + "#" + nm)
			pat, isC := ssau.ConstString(call.Common().Args[0])
			if !isC {
				r.Bad("O-2", key, c.P.Pos(call.Pos()), "MustCompile of a pattern that is not a constant: a pattern that does not compile panics")
				return
			}
			var err error
			if nm == "regexp.MustCompile" {
				_, err = regexp.Compile(pat)
			} else {
				_, err = regexp.CompilePOSIX(pat)
			}
			r.Check(err == nil, "O-2", key, c.P.Pos(call.Pos()), "constant pattern compiles: "+pat, fmt.Sprintf("the constant pattern %q does not compile: MustCompile panics (%v)", pat, err))
		})
	}
	r.Floor("O-2", "MustCompile sites", n, 20)
}

// c10Matcher: O-3.
func c10Matcher(c *Ctx, k *c10k) {
	r := c.R
	nulFree := k.withLeaf("nul-free", func(fn *ssa.Function, v ssa.Value, _ *ssa.BasicBlock) bool {
		switch x := v.(type) {
		case *ssa.Const:
			s, ok := ssau.ConstString(x)
			return ok && !strings.Contains(s, "\x00")
		case *ssa.Call:
			g := x.Common().StaticCallee()
			return g != nil && c.P.IsRepoFunc(g) && removesNUL(g)
		}
		return false
	})
	n := 0
	for _, fn := range shippedFuncs(c) {
		ord := newOrdinal()
		ssau.ForEachInstr(fn, false, func(in ssa.Instruction) {
			call, ok := in.(*ssa.Call)
			if !ok {
				return
			}
			nm := ssau.CallName(call)
			if !strings.HasPrefix(nm, "github.com/sahilm/fuzzy.Find") {
				return
			}
			n++
			key := ord.next(load.FuncKey(fn) + "#matcher-data")
			if nm != "github.com/sahilm/fuzzy.Find" && nm != "github.com/sahilm/fuzzy.FindNoSort" {
				r.Bad("O-3", key, c.P.Pos(call.Pos()), "the matcher is fed through a Source: its strings cannot be traced to the NUL-removing function")
				return
			}
			r.Check(nulFree.elemsNonNeg(call.Common().Args[1], 0), "O-3", key, c.P.Pos(call.Pos()), "every candidate is the result of a NUL-removing function", "a candidate string reaches the fuzzy matcher without passing a NUL-removing function: a NUL inside command or description text makes the matcher index past the end of its pattern (index out of range)")
		})
	}
	r.Floor("O-3", "fuzzy matcher call sites", n, 2)
}

// removesNUL: every return of g is free of NUL characters: the parameter
// under a dominating "contains no NUL" test, or strings.ReplaceAll(p, "\x00",
// <NUL-free constant>).
func removesNUL(g *ssa.Function) bool {
	if len(g.Params) != 1 || g.Signature.Results().Len() != 1 {
		return false
	}
	p := g.Params[0]
	cd := ssau.ControlDeps(g)
	for _, ret := range ssau.ReturnsOf(g) {
		v := ret.Results[0]
		if v == ssa.Value(p) {
			ok := false
			for _, d := range ssau.TransitiveControlDeps(cd, ret.Block()) {
				op, x, y, isC := ssau.CondOf(d.If().Cond)
				if !isC {
					continue
				}
				call, isCall := x.(*ssa.Call)
				k0, isK := ssau.ConstInt(y)
				if !isCall || !isK || k0 != 0 {
					continue
				}
				nm := ssau.CallName(call)
				if nm != "strings.IndexByte" && nm != "strings.IndexRune" {
					continue
				}
				a := call.Common().Args
				if a[0] != ssa.Value(p) {
					continue
				}
				if z, isZ := ssau.ConstInt(a[1]); !isZ || z != 0 {
					continue
				}
				// IndexByte(p, 0) < 0 on the taken edge
				if (op == token.LSS && d.Then) || (op == token.GEQ && !d.Then) {
					ok = true
				}
			}
			if !ok {
				return false
			}
			continue
		}
		call, ok := v.(*ssa.Call)
		if !ok || ssau.CallName(call) != "strings.ReplaceAll" {
			return false
		}
		a := call.Common().Args
		old, ok1 := ssau.ConstString(a[1])
		nw, ok2 := ssau.ConstString(a[2])
		if a[0] != ssa.Value(p) || !ok1 || !ok2 || old != "\x00" || strings.Contains(nw, "\x00") {
			return false
		}
	}
	return true
}

// c10Classify: O-4.
func c10Classify(c *Ctx) {
	r := c.R
	loadEntry := c.P.Func("internal/database", "", "LoadDatabase")
	ld := commandLoader(c) // where the file is read and decoded: LoadDatabase or its helper
	cl := c.P.Func("internal/errors", "", "NewDatabaseErrorWithContext")
	if !r.Anchor("O-4", "database.LoadDatabase", loadEntry != nil && ld != nil) || !r.Anchor("O-4", "errors.NewDatabaseErrorWithContext", cl != nil) {
		return
	}
	fk := "database.LoadDatabase"
	errIdx := errorIndex(ld)
	if ld != loadEntry {
		// LoadDatabase hands the helper's verdict on unchanged
		n := 0
		for _, call := range callsTo(loadEntry, ssau.FuncName(ld)) {
			n++
			ok, why := failurePropagates(call)
			ev := errValue(call)
			same := true
			succ, _ := nilTests(ev)
			reach := blocksReachable(call.Block(), succ)
			for _, ret := range ssau.ReturnsOf(loadEntry) {
				if reach[ret.Block()] && ssau.ResultValue(ret, errorIndex(loadEntry)) != ev {
					same = false
				}
			}
			r.Check(ok && same, "O-4", fk+"#passes-on-the-loader-verdict", c.P.Pos(call.Pos()), "a failure of "+ld.Name()+" is returned as it is", "LoadDatabase does not return the loader's own error: "+why)
		}
		if n == 0 {
			r.Bad("O-4", fk+"#passes-on-the-loader-verdict", c.P.Pos(loadEntry.Pos()), "LoadDatabase does not call the function that reads and decodes the file")
		}
	}
	// each failing step returns the classifier's verdict for its own operation and error
	for _, step := range []struct{ callee, op string }{{"os.ReadFile", "read"}, {"gopkg.in/yaml.v3.Unmarshal", "parse"}} {
		calls := callsTo(ld, step.callee)
		if len(calls) == 0 && step.op == "parse" {
			// the decoding is a helper given the bytes: its error is the parse
			// error, and inside it every failed Unmarshal must fail the helper
			if hc := decodeHelperCall(c, ld); hc != nil {
				calls = []*ssa.Call{hc}
				g := hc.Common().StaticCallee()
				for i, um := range callsTo(g, step.callee) {
					ok, why := failurePropagates(um)
					r.Check(ok, "O-4", fmt.Sprintf("%s#decode-failure-%d-returned", load.FuncKey(g), i+1), c.P.Pos(um.Pos()), "a failed decode makes "+g.Name()+" fail", "a failed decode of the file as a list of command entries is not reported by "+g.Name()+" (content that is not a list of entries then loads as if it were): "+why)
				}
			}
		}
		if len(calls) != 1 {
			r.Bad("O-4", fk+"#"+step.op+"-step", c.P.Pos(ld.Pos()), fmt.Sprintf("%d calls of %s (want 1)", len(calls), step.callee))
			continue
		}
		call := calls[0]
		ev := errValue(call)
		_, fail := nilTests(ev)
		succ, _ := nilTests(ev)
		good := len(fail) > 0
		detail := ""
		// every return reachable through the failure edge only (not through the success edge)
		n := 0
		for _, ret := range ssau.ReturnsOf(ld) {
			if reachAvoidBB(call.Block(), ret.Block(), fail, nil) || call.Block() == ret.Block() {
				continue // reachable without the failure edge: not this step's error return
			}
			if !reachAvoidBB(call.Block(), ret.Block(), succ, nil) {
				continue
			}
			n++
			rv := ssau.ResultValue(ret, errIdx)
			cc, ok := rv.(*ssa.Call)
			if !ok || ssau.CallName(cc) != ssau.FuncName(cl) {
				good, detail = false, "the error returned at "+c.P.Pos(ret.Pos())+" is not the classifier's verdict"
				continue
			}
			a := cc.Common().Args
			if op, ok := ssau.ConstString(a[0]); !ok || op != step.op {
				good, detail = false, fmt.Sprintf("the failed %s is classified under operation %q", step.op, op)
			}
			if a[2] != ev {
				good, detail = false, "the classifier is not given the error of the failed "+step.op
			}
		}
		if n == 0 {
			good, detail = false, "no return on the failure of "+step.callee
		}
		r.Check(good, "O-4", fk+"#"+step.op+"-failure-classified", c.P.Pos(call.Pos()), "a failed "+step.op+" returns NewDatabaseErrorWithContext(\""+step.op+"\", file, err)", detail)
	}
	// nothing stands between a successful read and the decoder: the bytes read
	// are the bytes decoded, and no return lies between the two steps
	{
		rd := callsTo(ld, "os.ReadFile")
		um := callsTo(ld, "gopkg.in/yaml.v3.Unmarshal")
		if len(um) == 0 {
			if hc := decodeHelperCall(c, ld); hc != nil {
				um = []*ssa.Call{hc}
			}
		}
		if len(rd) == 1 && len(um) == 1 {
			_, fail := nilTests(errValue(rd[0]))
			barrier := map[*ssa.BasicBlock]bool{um[0].Block(): true}
			good, why := true, ""
			for _, ret := range ssau.ReturnsOf(ld) {
				if ret.Block() != um[0].Block() && reachAvoidBB(rd[0].Block(), ret.Block(), fail, barrier) {
					good, why = false, "the file can be refused at "+c.P.Pos(ret.Pos())+" after it was read and before the decoder has seen it"
				}
			}
			given := false
			for _, a := range um[0].Common().Args {
				if resultValue(rd[0], 0) != nil && a == resultValue(rd[0], 0) {
					given = true
				}
			}
			if !given {
				good, why = false, "the decoder is not given exactly the bytes that were read"
			}
			r.Check(good, "O-4", fk+"#decoder-decides", c.P.Pos(um[0].Pos()), "every file that was read goes to the decoder unchanged", why+": whether content is a list of entries is the decoder's verdict alone (it accepts encodings and shapes a pre-check would refuse)")
		}
	}
	// success: after both steps succeeded every return carries a nil error and a database
	{
		um := callsTo(ld, "gopkg.in/yaml.v3.Unmarshal")
		if len(um) == 0 {
			if hc := decodeHelperCall(c, ld); hc != nil {
				um = []*ssa.Call{hc}
			}
		}
		if len(um) == 1 {
			_, fail := nilTests(errValue(um[0]))
			good, n := true, 0
			for _, ret := range ssau.ReturnsOf(ld) {
				if !reachAvoidBB(um[0].Block(), ret.Block(), fail, nil) {
					continue
				}
				n++
				if !ssau.IsNilConst(ssau.ResultValue(ret, errIdx)) || ssau.IsNilConst(ssau.ResultValue(ret, 0)) {
					good = false
				}
			}
			r.Check(good && n > 0, "O-4", fk+"#well-formed-list-loads", c.P.Pos(um[0].Pos()), "after a successful decode the database is returned with a nil error", "a list that was read and decoded successfully can still be rejected (or returned as nil)")
		}
	}
	// the classifier: decode failures first, then the error chain
	ck := "errors.NewDatabaseErrorWithContext"
	opP := cl.Params[0]
	var parseRet, nfRet []*ssa.Return
	for _, ret := range ssau.ReturnsOf(cl) {
		if cc, ok := ssau.Strip(ret.Results[0]).(*ssa.Call); ok {
			switch {
			case strings.HasSuffix(ssau.CallName(cc), ".NewDatabaseParseError"):
				parseRet = append(parseRet, ret)
			case strings.HasSuffix(ssau.CallName(cc), ".NewDatabaseNotFoundError"):
				nfRet = append(nfRet, ret)
			}
		}
	}
	// the function that decides: the classifier itself, or a helper it switches
	// on (kind := classify(op, cause); switch kind { case parseKind: ... })
	af := cl
	var causeP *ssa.Parameter = cl.Params[2]
	findParseTest := func(fn *ssa.Function, op *ssa.Parameter) (t, f map[[2]int]bool) {
		for _, iff := range ssau.Ifs(fn) {
			o, x, y, ok := ssau.CondOf(iff.Cond)
			if !ok || o != token.EQL {
				continue
			}
			if s, isS := ssau.ConstString(y); isS && s == "parse" && x == ssa.Value(op) {
				t = map[[2]int]bool{{iff.Block().Index, 0}: true}
				f = map[[2]int]bool{{iff.Block().Index, 1}: true}
			}
		}
		return
	}
	parseTrue, parseFalse := findParseTest(cl, opP)
	if parseTrue == nil && len(parseRet) > 0 && len(nfRet) > 0 {
		ssau.ForEachInstr(cl, false, func(in ssa.Instruction) {
			call, ok := in.(*ssa.Call)
			if !ok || af != cl {
				return
			}
			kf := call.Common().StaticCallee()
			if kf == nil || kf.Blocks == nil || !c.P.IsRepoFunc(kf) {
				return
			}
			var kop, kcause *ssa.Parameter
			for i, a := range call.Common().Args {
				if i >= len(kf.Params) {
					break
				}
				if a == ssa.Value(cl.Params[0]) {
					kop = kf.Params[i]
				}
				if a == ssa.Value(cl.Params[2]) {
					kcause = kf.Params[i]
				}
			}
			if kop == nil || kcause == nil {
				return
			}
			// which constant of the helper selects which verdict here
			verdictOf := map[int64]string{}
			for _, iff := range ssau.Ifs(cl) {
				o, x, y, ok := ssau.CondOf(iff.Cond)
				if !ok || o != token.EQL || x != ssa.Value(call) {
					continue
				}
				kv, isC := ssau.ConstInt(y)
				if !isC {
					continue
				}
				t := iff.Block().Succs[0]
				for _, pr := range parseRet {
					if t == pr.Block() {
						verdictOf[kv] = "parse"
					}
				}
				for _, nr := range nfRet {
					if t == nr.Block() {
						verdictOf[kv] = "notfound"
					}
				}
			}
			var pr2, nr2 []*ssa.Return
			for _, ret := range ssau.ReturnsOf(kf) {
				if kv, isC := ssau.ConstInt(ret.Results[0]); isC {
					switch verdictOf[kv] {
					case "parse":
						pr2 = append(pr2, ret)
					case "notfound":
						nr2 = append(nr2, ret)
					}
				}
			}
			if t, f := findParseTest(kf, kop); t != nil && len(pr2) > 0 && len(nr2) > 0 {
				af, opP, causeP, parseRet, nfRet, parseTrue, parseFalse = kf, kop, kcause, pr2, nr2, t, f
			}
		})
	}
	if parseTrue == nil || len(parseRet) == 0 || len(nfRet) == 0 {
		r.Bad("O-4", ck+"#shape", c.P.Pos(cl.Pos()), "the classifier has no `op == \"parse\"` test, no parse verdict or no not-found verdict")
		return
	}
	cl = af
	// (a) with op == "parse" only the parse verdict is reachable (cut the false edge: what stays reachable)
	good := true
	entry := cl.Blocks[0]
	for _, ret := range ssau.ReturnsOf(cl) {
		isParse := false
		for _, p := range parseRet {
			if p == ret {
				isParse = true
			}
		}
		if isParse {
			continue
		}
		// reachable from the entry without taking the false edge of the test
		// *after* having reached the test: approximate by requiring every path
		// to a non-parse verdict (other than the nil-cause return) to pass the false edge
		if reachAvoidBB(entry, ret.Block(), parseFalse, nil) && !c10NilCauseReturn(cl, causeP, ret) {
			good = false
		}
	}
	r.Check(good, "O-4", ck+"#decode-failure-is-parse-error", c.P.Pos(cl.Pos()), "every verdict other than the parse error lies behind op != \"parse\"", "a decode failure (op == \"parse\") can be given a verdict other than the parse error: decoder messages quote file content, so a message test ahead of the operation test misclassifies files that merely mention 'no such file' or 'permission denied'")
	// (b) the not-found verdict is taken for fs.ErrNotExist by the error chain
	isOK := false
	for _, call := range callsTo(cl, "errors.Is") {
		if g, ok := call.Common().Args[1].(*ssa.UnOp); ok {
			if gl, ok := g.X.(*ssa.Global); ok && gl.Name() == "ErrNotExist" {
				// its true edge leads to the not-found verdict
				for _, ref := range *call.Referrers() {
					if iff, ok := ref.(*ssa.If); ok {
						for _, nf := range nfRet {
							if iff.Block().Succs[0] == nf.Block() || reachAvoidBB(iff.Block().Succs[0], nf.Block(), nil, nil) && !reachAvoidBB(iff.Block().Succs[0], parseRet[0].Block(), nil, nil) {
								isOK = true
							}
						}
					}
				}
			}
		}
	}
	// (c) nothing ahead of the error-chain test can capture a missing file: the
	// tests a read failure passes before it are on the operation, on a nil
	// cause, or on how the message BEGINS (a read failure's message begins with
	// its own operation and then quotes the path, which may contain anything)
	{
		var chainIf *ssa.If
		for _, call := range callsTo(cl, "errors.Is") {
			if g, ok := call.Common().Args[1].(*ssa.UnOp); ok {
				if gl, ok := g.X.(*ssa.Global); ok && gl.Name() == "ErrNotExist" {
					for _, ref := range *call.Referrers() {
						if iff, ok := ref.(*ssa.If); ok {
							chainIf = iff
						}
					}
				}
			}
		}
		good, why := chainIf != nil, "no errors.Is(cause, fs.ErrNotExist) test"
		if chainIf != nil {
			for _, iff := range ssau.Ifs(cl) {
				b := iff.Block()
				if b == chainIf.Block() || !(b == entry || reachAvoidBB(entry, b, nil, nil)) || !reachAvoidBB(b, chainIf.Block(), nil, nil) {
					continue
				}
				if !c10HarmlessBeforeChain(opP, causeP, iff) {
					good, why = false, "the test at "+c.P.Pos(iff.Cond.Pos())+" looks into the message text before the error chain is consulted"
				}
			}
		}
		r.Check(good, "O-4", ck+"#chain-before-text", c.P.Pos(cl.Pos()), "only operation, nil-cause and message-prefix tests precede errors.Is(cause, fs.ErrNotExist)", why+": a read failure's message quotes the path, so a missing file whose path contains the phrase is given the wrong verdict")
	}
	r.Check(isOK, "O-4", ck+"#missing-file-is-not-found", c.P.Pos(cl.Pos()), "errors.Is(cause, fs.ErrNotExist) leads to the not-found verdict", "a read failure that is fs.ErrNotExist is not (any longer) recognised through the error chain: the verdict then depends on the wording of the platform's message")
}

// c10HarmlessBeforeChain: the branch condition cannot be influenced by the
// path quoted in a read failure's message: a comparison of the operation
// parameter with a constant, a nil test of the cause, or strings.HasPrefix of
// the message with a constant.
func c10HarmlessBeforeChain(opP, causeP *ssa.Parameter, iff *ssa.If) bool {
	return c10HarmlessCond(opP, causeP, iff.Cond, 0)
}

func c10HarmlessCond(opP, causeP *ssa.Parameter, cond ssa.Value, d int) bool {
	// a condition kept in a variable: every part of it is harmless
	if phi, ok := cond.(*ssa.Phi); ok && d < 3 {
		for _, e := range phi.Edges {
			if _, isC := e.(*ssa.Const); isC {
				continue
			}
			if !c10HarmlessCond(opP, causeP, e, d+1) {
				return false
			}
		}
		return len(phi.Edges) > 0
	}
	if u, ok := cond.(*ssa.UnOp); ok && u.Op == token.NOT {
		return c10HarmlessCond(opP, causeP, u.X, d+1)
	}
	if op, x, y, ok := ssau.CondOf(cond); ok && (op == token.EQL || op == token.NEQ) {
		if x == ssa.Value(opP) || y == ssa.Value(opP) {
			_, c1 := ssau.ConstString(x)
			_, c2 := ssau.ConstString(y)
			return c1 || c2
		}
		if (x == ssa.Value(causeP) && ssau.IsNilConst(y)) || (y == ssa.Value(causeP) && ssau.IsNilConst(x)) {
			return true
		}
	}
	if call, ok := cond.(*ssa.Call); ok && ssau.CallName(call) == "strings.HasPrefix" {
		_, isC := ssau.ConstString(call.Common().Args[1])
		return isC
	}
	return false
}

// c10NilCauseReturn: the return taken when no cause is given at all.
func c10NilCauseReturn(fn *ssa.Function, cause *ssa.Parameter, ret *ssa.Return) bool {
	succ, _ := nilTests(cause)
	if len(succ) == 0 {
		return false
	}
	// reachable only through the cause == nil edge
	return !reachAvoidBB(fn.Blocks[0], ret.Block(), succ, nil)
}

// c10Termination: O-5.
func c10Termination(c *Ctx, scope []*ssa.Function) {
	r := c.R
	sx := symx.New(c.P.IsRepoFunc)
	nLoops, nBad := 0, 0
	for _, fn := range scope {
		if fn.Synthetic != "" {
			continue
		}
		ranges := map[*ssa.BasicBlock]bool{}
		for _, l := range ssau.RangeLoops(fn) {
			if !l.Counted {
				ranges[l.Header] = true
			}
		}
		var q *interval.Q
		ord := newOrdinal()
		// natural loops: a back edge b -> h with h dominating b
		heads := map[*ssa.BasicBlock]bool{}
		for _, b := range fn.Blocks {
			for _, sc := range b.Succs {
				if sc.Dominates(b) || sc == b {
					heads[sc] = true
				}
			}
		}
		var hs []*ssa.BasicBlock
		for h := range heads {
			hs = append(hs, h)
		}
		sort.Slice(hs, func(i, j int) bool { return hs[i].Index < hs[j].Index })
		for _, h := range hs {
			nLoops++
			key := ord.next(load.FuncKey(fn) + "#loop")
			if ranges[h] {
				r.OK("O-5", key, c.P.Pos(loopPos(h)), "range loop: one iteration per element")
				continue
			}
			if q == nil {
				q = interval.New(sx.Of(fn))
			}
			if ok, how := countedLoop(q, h); ok {
				r.OK("O-5", key, c.P.Pos(loopPos(h)), how)
				continue
			}
			if ok, how := drainLoop(c, q, h); ok {
				r.OK("O-5", key, c.P.Pos(loopPos(h)), how)
				continue
			}
			nBad++
			r.Bad("O-5", key, c.P.Pos(loopPos(h)), "a loop that is neither a range loop nor a counted loop with a counter moving towards a fixed bound: nothing shows that it ends for every input")
		}
	}
	r.Analysed["loops_in_scope"] = nLoops
	r.Floor("O-5", "loops examined", nLoops, 100)
	// recursion in the reachable call graph
	cg := c.P.CallGraph()
	inScope := map[*ssa.Function]bool{}
	for _, fn := range scope {
		inScope[fn] = true
	}
	index := map[*ssa.Function]int{}
	low := map[*ssa.Function]int{}
	on := map[*ssa.Function]bool{}
	var st []*ssa.Function
	n := 0
	var cyc [][]*ssa.Function
	var dfs func(fn *ssa.Function)
	dfs = func(fn *ssa.Function) {
		n++
		index[fn], low[fn] = n, n
		st = append(st, fn)
		on[fn] = true
		self := false
		if node := cg.Nodes[fn]; node != nil {
			for _, e := range node.Out {
				cf := e.Callee.Func
				if !inScope[cf] {
					continue
				}
				if cf == fn {
					self = true
				}
				if index[cf] == 0 {
					dfs(cf)
					if low[cf] < low[fn] {
						low[fn] = low[cf]
					}
				} else if on[cf] && index[cf] < low[fn] {
					low[fn] = index[cf]
				}
			}
		}
		if low[fn] == index[fn] {
			var comp []*ssa.Function
			for {
				x := st[len(st)-1]
				st = st[:len(st)-1]
				on[x] = false
				comp = append(comp, x)
				if x == fn {
					break
				}
			}
			if len(comp) > 1 || self {
				cyc = append(cyc, comp)
			}
		}
	}
	for _, fn := range scope {
		if index[fn] == 0 {
			dfs(fn)
		}
	}
	for _, comp := range cyc {
		var names []string
		for _, f := range comp {
			names = append(names, load.FuncKey(f))
		}
		sort.Strings(names)
		r.Bad("O-5", "recursion:"+names[0], c.P.Pos(comp[0].Pos()), "recursive calls among "+strings.Join(names, ", ")+": nothing bounds their depth")
	}
	if len(cyc) == 0 {
		r.OK("O-5", "engine#no-recursion", "", fmt.Sprintf("%d reachable functions: the call graph among them is acyclic", len(scope)))
	}
}

func loopPos(h *ssa.BasicBlock) token.Pos {
	for _, in := range h.Instrs {
		if in.Pos() != token.NoPos {
			return in.Pos()
		}
	}
	for _, p := range h.Preds {
		for i := len(p.Instrs) - 1; i >= 0; i-- {
			if p.Instrs[i].Pos() != token.NoPos {
				return p.Instrs[i].Pos()
			}
		}
	}
	return token.NoPos
}

// countedLoop: the loop headed by h is left through a comparison of a
// counter that every iteration moves towards the other operand, which the
// loop does not change.
func countedLoop(q *interval.Q, h *ssa.BasicBlock) (bool, string) {
	// exits: blocks of the loop with a successor outside; accept when some
	// exit condition that every iteration evaluates (the header's, or a block
	// that dominates all back edges) is a counter test
	loop := map[*ssa.BasicBlock]bool{h: true}
	var work []*ssa.BasicBlock
	for _, p := range h.Preds {
		if h.Dominates(p) || p == h {
			work = append(work, p)
		}
	}
	var latches []*ssa.BasicBlock
	latches = append(latches, work...)
	for len(work) > 0 {
		b := work[len(work)-1]
		work = work[:len(work)-1]
		if loop[b] {
			continue
		}
		loop[b] = true
		work = append(work, b.Preds...)
	}
	for b := range loop {
		iff, ok := b.Instrs[len(b.Instrs)-1].(*ssa.If)
		if !ok {
			continue
		}
		leaves := -1
		for k, sc := range b.Succs {
			if !loop[sc] {
				leaves = k
			}
		}
		if leaves < 0 {
			continue
		}
		// evaluated on every iteration
		every := true
		for _, l := range latches {
			if !(b.Dominates(l) || b == l) {
				every = false
			}
		}
		if !every {
			continue
		}
		op, x, y, okc := ssau.CondOf(iff.Cond)
		if !okc {
			continue
		}
		if leaves == 0 {
			op = ssau.Negate(op) // the loop continues on the false edge
		}
		// continue while x op y
		try := func(cnt, bound ssa.Value, o token.Token) bool {
			ph, ok := cnt.(*ssa.Phi)
			if !ok || !loop[ph.Block()] {
				// the stepped value itself (rangeindex form)
				if bo, isBo := cnt.(*ssa.BinOp); isBo {
					ph, ok = bo.X.(*ssa.Phi)
				}
				if !ok || ph == nil || !loop[ph.Block()] {
					return false
				}
			}
			dir := phiDirection(ph, loop)
			if dir == 0 {
				return false
			}
			// the loop does not change the bound
			if !loopInvariant(q, loop, bound, 0) {
				return false
			}
			return (dir > 0 && (o == token.LSS || o == token.LEQ || o == token.NEQ)) || (dir < 0 && (o == token.GTR || o == token.GEQ || o == token.NEQ))
		}
		if try(x, y, op) || try(y, x, ssau.Flip(op)) {
			return true, "counted loop: the counter moves towards a bound the loop does not change"
		}
	}
	return false, ""
}

// loopInvariant: v has the same value on every iteration: defined outside the
// loop, a constant, a load of a location the loop does not write (by its
// symx version), or len/min/max/arithmetic of such values.
func loopInvariant(q *interval.Q, loop map[*ssa.BasicBlock]bool, v ssa.Value, d int) bool {
	if d > 6 {
		return false
	}
	in, isIn := v.(ssa.Instruction)
	if !isIn || in.Block() == nil || !loop[in.Block()] {
		return true
	}
	switch x := v.(type) {
	case *ssa.Call:
		n := ssau.CallName(x)
		if n == "builtin.len" || n == "builtin.cap" || n == "builtin.min" || n == "builtin.max" || strings.HasSuffix(n, "/internal/utils.Min") || strings.HasSuffix(n, "/internal/utils.Max") {
			for _, a := range x.Common().Args {
				if !loopInvariant(q, loop, a, d+1) {
					return false
				}
			}
			return true
		}
	case *ssa.BinOp:
		return loopInvariant(q, loop, x.X, d+1) && loopInvariant(q, loop, x.Y, d+1)
	case *ssa.Convert:
		return loopInvariant(q, loop, x.X, d+1)
	case *ssa.UnOp:
		if x.Op != token.MUL {
			return false
		}
		ver := q.F.Version(x)
		if jb := q.F.JoinBlock(ver); jb != nil && loop[jb] {
			return false
		}
		if wi := q.F.InstrByID(ver); wi != nil && loop[wi.Block()] {
			return false
		}
		if strings.HasPrefix(ver, "u") {
			return false
		}
		switch a := x.X.(type) {
		case *ssa.FieldAddr:
			return loopInvariant(q, loop, a.X, d+1)
		case *ssa.Alloc, *ssa.Global, *ssa.FreeVar:
			return true
		}
	}
	return false
}

// phiDirection: +1 when every in-loop edge of the phi adds a positive
// constant, -1 when every one subtracts, 0 otherwise.
func phiDirection(ph *ssa.Phi, loop map[*ssa.BasicBlock]bool) int {
	dir := 0
	seen := map[*ssa.Phi]bool{}
	var walk func(v ssa.Value, d int) int // returns the constant total step, or a sentinel
	const bad = 1 << 30
	walk = func(v ssa.Value, d int) int {
		if v == ssa.Value(ph) {
			return 0
		}
		if d > 6 {
			return bad
		}
		switch x := v.(type) {
		case *ssa.BinOp:
			k, ok := ssau.ConstInt(x.Y)
			if !ok || (x.Op != token.ADD && x.Op != token.SUB) {
				return bad
			}
			b := walk(x.X, d+1)
			if b == bad {
				return bad
			}
			if x.Op == token.SUB {
				return b - int(k)
			}
			return b + int(k)
		case *ssa.Phi:
			if seen[x] {
				return bad
			}
			seen[x] = true
			// all edges must agree in sign; return the smallest magnitude
			res := bad
			for _, e := range x.Edges {
				s := walk(e, d+1)
				if s == bad {
					return bad
				}
				if res == bad || abs(s) < abs(res) {
					if res != bad && (s > 0) != (res > 0) {
						return bad
					}
					res = s
				}
			}
			return res
		}
		return bad
	}
	for i, e := range ph.Edges {
		if !loop[ph.Block().Preds[i]] {
			continue
		}
		s := walk(e, 0)
		if s == bad || s == 0 {
			return 0
		}
		if dir != 0 && (s > 0) != (dir > 0) {
			return 0
		}
		if s > 0 {
			dir = 1
		} else {
			dir = -1
		}
	}
	return dir
}

func abs(x int) int {
	if x < 0 {
		return -x
	}
	return x
}

// drainLoop: `for l.Len() > k { ... }` over a container/list with k >= 0 that
// the loop does not change, where every iteration removes an element of that
// list (directly, or through a method that removes the list's back or front
// element unless the list is empty — it is not: Len() > k >= 0). The length
// goes down by one per iteration, so the loop ends.
func drainLoop(c *Ctx, q *interval.Q, h *ssa.BasicBlock) (bool, string) {
	fn := h.Parent()
	iff, ok := h.Instrs[len(h.Instrs)-1].(*ssa.If)
	if !ok {
		return false, ""
	}
	op, x, y, okc := ssau.CondOf(iff.Cond)
	if !okc {
		return false, ""
	}
	if op == token.LSS {
		x, y, op = y, x, token.GTR
	}
	lc, isCall := x.(*ssa.Call)
	if !isCall || ssau.CallName(lc) != "(*container/list.List).Len" {
		return false, ""
	}
	switch op {
	case token.GTR:
	case token.NEQ:
		if k, isK := ssau.ConstInt(y); !isK || k != 0 {
			return false, ""
		}
	default:
		return false, ""
	}
	// the bound: a non-negative constant, or a field that only ever holds positive values
	if k, isK := ssau.ConstInt(y); isK {
		if k < 0 {
			return false, ""
		}
	} else if iv := q.At(y, h); !(iv.LoOK && iv.Lo >= 0) {
		o, f, _, isF := fieldLoad(y)
		if !isF {
			return false, ""
		}
		sx := symx.New(c.P.IsRepoFunc)
		n := 0
		for _, g := range shippedFuncs(c) {
			bad := false
			ssau.ForEachInstr(g, false, func(in ssa.Instruction) {
				st, isSt := in.(*ssa.Store)
				if !isSt {
					return
				}
				fa, isFA := st.Addr.(*ssa.FieldAddr)
				if !isFA || ssau.FieldOwner(fa) != o || ssau.FieldName(fa) != f {
					return
				}
				n++
				if iv := interval.New(sx.Of(g)).At(st.Val, st.Block()); !(iv.LoOK && iv.Lo >= 0) {
					bad = true
				}
			})
			if bad {
				return false, ""
			}
		}
		if n == 0 {
			return false, ""
		}
	}
	list := lc.Common().Args[0]
	sameList := func(v ssa.Value) bool {
		a, _, _, ok1 := fieldLoad(v)
		b, _, _, ok2 := fieldLoad(list)
		if ok1 && ok2 {
			_, fa, _, _ := fieldLoad(v)
			_, fb, _, _ := fieldLoad(list)
			return a == b && fa == fb
		}
		return v == list
	}
	var removesAlways func(g *ssa.Function, unlessEmpty bool, d int) bool
	removalBlocks := func(g *ssa.Function, isList func(ssa.Value) bool, d int) map[*ssa.BasicBlock]bool {
		out := map[*ssa.BasicBlock]bool{}
		ssau.ForEachInstr(g, false, func(in ssa.Instruction) {
			call, ok := in.(*ssa.Call)
			if !ok {
				return
			}
			if ssau.CallName(call) == "(*container/list.List).Remove" && isList(call.Common().Args[0]) {
				out[call.Block()] = true
				return
			}
			if cal := call.Common().StaticCallee(); cal != nil && c.P.IsRepoFunc(cal) && len(cal.Blocks) > 0 && d < 3 {
				if removesAlways(cal, true, d+1) {
					out[call.Block()] = true
				}
			}
		})
		return out
	}
	anyList := func(v ssa.Value) bool {
		_, f1, _, ok1 := fieldLoad(v)
		_, f2, _, ok2 := fieldLoad(list)
		return ok1 && ok2 && f1 == f2
	}
	removesAlways = func(g *ssa.Function, unlessEmpty bool, d int) bool {
		barrier := removalBlocks(g, anyList, d)
		if len(barrier) == 0 {
			return false
		}
		cut := map[[2]int]bool{}
		if unlessEmpty {
			for _, i2 := range ssau.Ifs(g) {
				o2, a, b, ok := ssau.CondOf(i2.Cond)
				if !ok {
					continue
				}
				if ssau.IsNilConst(a) {
					a, b = b, a
				}
				bc, isC := a.(*ssa.Call)
				if !isC || !ssau.IsNilConst(b) {
					continue
				}
				if n := ssau.CallName(bc); n != "(*container/list.List).Back" && n != "(*container/list.List).Front" {
					continue
				}
				switch o2 {
				case token.EQL:
					cut[[2]int{i2.Block().Index, 0}] = true
				case token.NEQ:
					cut[[2]int{i2.Block().Index, 1}] = true
				}
			}
		}
		for _, ret := range ssau.ReturnsOf(g) {
			if barrier[ret.Block()] {
				continue
			}
			if reachAvoidBB(g.Blocks[0], ret.Block(), cut, barrier) || (g.Blocks[0] == ret.Block()) {
				return false
			}
		}
		return true
	}
	barrier := removalBlocks(fn, sameList, 0)
	if len(barrier) == 0 {
		return false, ""
	}
	body := h.Succs[0]
	if barrier[body] {
		return true, "drain loop: every iteration removes one element of the list whose length is tested"
	}
	if reachAvoidBB(body, h, nil, barrier) {
		return false, ""
	}
	return true, "drain loop: every iteration removes one element of the list whose length is tested"
}
