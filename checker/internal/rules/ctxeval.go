package rules

import (
	"fmt"
	"go/token"
	"go/types"
	"sort"
	"strings"

	"golang.org/x/tools/go/ssa"

	"wtfverif/checker/internal/ssau"
)

// ctxEval describes where a value comes from, following it backwards through
// local cells, struct fields (of local structs, of struct parameters and of
// struct results), parameters (to the argument at the call site on the call
// stack — context-sensitively, so that a helper shared by two commands is
// described once per command) and results of repository functions.
//
// Leaves are rendered by Leaf; what it does not name is rendered by shape
// (const:…, call:…, phi(…), append(…, …...), literal, other).
type ctxEval struct {
	c *Ctx
	// Leaf names a value that ends the walk ("" = not a leaf).
	Leaf func(v ssa.Value, stack []*ssa.Call) string
	// busy / memo: a value being described (a loop-carried merge meets itself)
	// and the descriptions already computed, per value and call stack
	busy map[ctxKey]bool
	memo map[ctxKey]string
}

type ctxKey struct {
	v     ssa.Value
	depth int
	top   *ssa.Call
}

func mkCtxKey(v ssa.Value, stack []*ssa.Call) ctxKey {
	k := ctxKey{v: v, depth: len(stack)}
	if len(stack) > 0 {
		k.top = stack[len(stack)-1]
	}
	return k
}

const ctxEvalDepth = 40

func (e *ctxEval) paramIndex(p *ssa.Parameter) int {
	for i, q := range p.Parent().Params {
		if q == p {
			return i
		}
	}
	return -1
}

// Describe renders the origin of v evaluated under the call stack.
func (e *ctxEval) Describe(v ssa.Value, stack []*ssa.Call) string {
	return e.desc(v, stack, 0)
}

func (e *ctxEval) desc(v ssa.Value, stack []*ssa.Call, d int) string {
	if d > ctxEvalDepth {
		return "other"
	}
	if _, isC := v.(*ssa.Const); !isC {
		k := mkCtxKey(v, stack)
		if s, ok := e.memo[k]; ok {
			return s
		}
		if e.busy[k] {
			return "loop" // the value feeds itself round a loop
		}
		if e.busy == nil {
			e.busy, e.memo = map[ctxKey]bool{}, map[ctxKey]string{}
		}
		e.busy[k] = true
		s := e.desc1(v, stack, d)
		delete(e.busy, k)
		e.memo[k] = s
		return s
	}
	return e.desc1(v, stack, d)
}

func (e *ctxEval) desc1(v ssa.Value, stack []*ssa.Call, d int) string {
	if e.Leaf != nil {
		if s := e.Leaf(v, stack); s != "" {
			return s
		}
	}
	switch x := v.(type) {
	case *ssa.Const:
		if x.Value == nil {
			return "const:nil"
		}
		return "const:" + x.Value.String()
	case *ssa.ChangeType:
		return e.desc(x.X, stack, d+1)
	case *ssa.MakeInterface:
		return e.desc(x.X, stack, d+1)
	case *ssa.Parameter:
		if len(stack) > 0 {
			top := stack[len(stack)-1]
			if top.Common().StaticCallee() == x.Parent() {
				if i := e.paramIndex(x); i >= 0 && i < len(top.Common().Args) {
					return e.desc(top.Common().Args[i], stack[:len(stack)-1], d+1)
				}
			}
		}
		return "param:" + x.Name()
	case *ssa.Phi:
		var parts []string
		for _, ed := range x.Edges {
			parts = append(parts, e.desc(ed, stack, d+1))
		}
		sort.Strings(parts)
		parts = dedupStrings(parts)
		if len(parts) == 1 {
			return parts[0]
		}
		return "phi(" + strings.Join(parts, "|") + ")"
	case *ssa.Extract:
		if call, ok := x.Tuple.(*ssa.Call); ok {
			return e.descCall(call, x.Index, stack, d)
		}
	case *ssa.Call:
		return e.descCall(x, 0, stack, d)
	case *ssa.Slice:
		if al, ok := x.X.(*ssa.Alloc); ok && strings.Contains(al.Comment, "slicelit") {
			return "literal"
		}
		if x.Low == nil && x.High == nil {
			return e.desc(x.X, stack, d+1)
		}
	case *ssa.Field:
		return e.field(x.X, x.Field, stack, d+1)
	case *ssa.UnOp:
		if x.Op != token.MUL {
			break
		}
		switch a := x.X.(type) {
		case *ssa.Alloc:
			return e.cell(a, x, stack, d+1)
		case *ssa.FieldAddr:
			return e.fieldOfAddrAt(a.X, a.Field, x, stack, d+1)
		}
	}
	return "other"
}

func (e *ctxEval) descCall(call *ssa.Call, res int, stack []*ssa.Call, d int) string {
	n := ssau.CallName(call)
	if n == "builtin.append" {
		a := call.Common().Args
		return "append(" + e.desc(a[0], stack, d+1) + ", " + e.desc(a[1], stack, d+1) + "...)"
	}
	if n == "builtin.len" {
		return "len(" + e.desc(call.Common().Args[0], stack, d+1) + ")"
	}
	g := call.Common().StaticCallee()
	if g == nil || g.Blocks == nil || !e.c.P.IsRepoFunc(g) || len(stack) > 6 {
		return "call:" + n
	}
	var parts []string
	ns := append(append([]*ssa.Call(nil), stack...), call)
	for _, ret := range ssau.ReturnsOf(g) {
		if res >= len(ret.Results) {
			return "call:" + n
		}
		parts = append(parts, e.desc(ssau.ResultValue(ret, res), ns, d+1))
	}
	sort.Strings(parts)
	parts = dedupStrings(parts)
	if len(parts) == 1 {
		return parts[0]
	}
	return "phi(" + strings.Join(parts, "|") + ")"
}

// cell: the value held by a local variable: the single store into it (a
// second store makes it a merge).
func (e *ctxEval) cell(al *ssa.Alloc, at ssa.Instruction, stack []*ssa.Call, d int) string {
	var parts []string
	var sts []*ssa.Store
	for _, ref := range *al.Referrers() {
		if st, ok := ref.(*ssa.Store); ok && st.Addr == ssa.Value(al) {
			sts = append(sts, st)
		}
	}
	for _, st := range liveStores(sts, at) {
		parts = append(parts, e.desc(st.Val, stack, d+1))
	}
	if len(parts) == 0 {
		return "other"
	}
	sort.Strings(parts)
	parts = dedupStrings(parts)
	if len(parts) == 1 {
		return parts[0]
	}
	return "phi(" + strings.Join(parts, "|") + ")"
}

// fieldOfAddr: field #f of the struct at address base.
func (e *ctxEval) fieldOfAddr(base ssa.Value, f int, stack []*ssa.Call, d int) string {
	return e.fieldOfAddrAt(base, f, nil, stack, d)
}

// fieldOfAddrAt: as fieldOfAddr, for a read at instruction at (nil: unknown):
// for a local struct only the stores that can still be in force there count.
func (e *ctxEval) fieldOfAddrAt(base ssa.Value, f int, at ssa.Instruction, stack []*ssa.Call, d int) string {
	if d > ctxEvalDepth {
		return "other"
	}
	switch b := base.(type) {
	case *ssa.Alloc:
		var parts []string
		var sts []*ssa.Store
		for _, ref := range *b.Referrers() {
			switch x := ref.(type) {
			case *ssa.FieldAddr:
				if x.Field != f {
					continue
				}
				for _, r2 := range *x.Referrers() {
					if st, ok := r2.(*ssa.Store); ok && st.Addr == ssa.Value(x) {
						sts = append(sts, st)
					}
				}
			case *ssa.Store:
				if x.Addr == ssa.Value(b) {
					sts = append(sts, x)
				}
			}
		}
		for _, st := range liveStores(sts, at) {
			if st.Addr == ssa.Value(b) {
				parts = append(parts, e.field(st.Val, f, stack, d+1))
			} else {
				parts = append(parts, e.desc(st.Val, stack, d+1))
			}
		}
		if len(parts) == 0 {
			return "zero" // a field of a fresh struct nobody set
		}
		sort.Strings(parts)
		parts = dedupStrings(parts)
		if len(parts) == 1 {
			return parts[0]
		}
		return "phi(" + strings.Join(parts, "|") + ")"
	case *ssa.Parameter:
		// pointer to a struct handed in by the caller
		if len(stack) > 0 {
			top := stack[len(stack)-1]
			if top.Common().StaticCallee() == b.Parent() {
				if i := e.paramIndex(b); i >= 0 && i < len(top.Common().Args) {
					return e.fieldOfAddr(top.Common().Args[i], f, stack[:len(stack)-1], d+1)
				}
			}
		}
		if path := e.addrPath(b, stack, 0); path != "" {
			return path + "." + fieldNameOf(b.Type(), f)
		}
	case *ssa.FieldAddr:
		// a struct nested in another (c.metrics.hits): named by its access path
		if path := e.addrPath(b, stack, 0); path != "" {
			return path + "." + fieldNameOf(b.Type(), f)
		}
	case *ssa.UnOp:
		// pointer held in a local
		if al, ok := b.X.(*ssa.Alloc); ok && b.Op == token.MUL {
			for _, ref := range *al.Referrers() {
				if st, ok := ref.(*ssa.Store); ok && st.Addr == ssa.Value(al) {
					return e.fieldOfAddr(st.Val, f, stack, d+1)
				}
			}
		}
	case *ssa.Call, *ssa.Extract:
		// pointer returned by a repository constructor
		call, res := e.asCall(b)
		if call != nil {
			if g := call.Common().StaticCallee(); g != nil && g.Blocks != nil && e.c.P.IsRepoFunc(g) {
				ns := append(append([]*ssa.Call(nil), stack...), call)
				var parts []string
				for _, ret := range ssau.ReturnsOf(g) {
					rv := ssau.ResultValue(ret, res)
					if ssau.IsNilConst(rv) {
						continue
					}
					parts = append(parts, e.fieldOfAddr(rv, f, ns, d+1))
				}
				sort.Strings(parts)
				parts = dedupStrings(parts)
				if len(parts) == 1 {
					return parts[0]
				}
				if len(parts) > 1 {
					return "phi(" + strings.Join(parts, "|") + ")"
				}
			}
		}
	}
	return "other"
}

func (e *ctxEval) asCall(v ssa.Value) (*ssa.Call, int) {
	switch x := v.(type) {
	case *ssa.Call:
		return x, 0
	case *ssa.Extract:
		if call, ok := x.Tuple.(*ssa.Call); ok {
			return call, x.Index
		}
	}
	return nil, 0
}

// field: field #f of the struct value sv.
func (e *ctxEval) field(sv ssa.Value, f int, stack []*ssa.Call, d int) string {
	if d > ctxEvalDepth {
		return "other"
	}
	switch x := sv.(type) {
	case *ssa.UnOp:
		if x.Op == token.MUL {
			return e.fieldOfAddrAt(x.X, f, x, stack, d+1)
		}
	case *ssa.Parameter:
		if len(stack) > 0 {
			top := stack[len(stack)-1]
			if top.Common().StaticCallee() == x.Parent() {
				if i := e.paramIndex(x); i >= 0 && i < len(top.Common().Args) {
					return e.field(top.Common().Args[i], f, stack[:len(stack)-1], d+1)
				}
			}
		}
		if st, ok := x.Type().Underlying().(*types.Struct); ok && f < st.NumFields() {
			return "param:" + x.Name() + "." + st.Field(f).Name()
		}
	case *ssa.Phi:
		var parts []string
		for _, ed := range x.Edges {
			parts = append(parts, e.field(ed, f, stack, d+1))
		}
		sort.Strings(parts)
		parts = dedupStrings(parts)
		if len(parts) == 1 {
			return parts[0]
		}
		return "phi(" + strings.Join(parts, "|") + ")"
	case *ssa.Call, *ssa.Extract:
		call, res := e.asCall(x)
		if call == nil {
			break
		}
		g := call.Common().StaticCallee()
		if g == nil || g.Blocks == nil || !e.c.P.IsRepoFunc(g) {
			break
		}
		ns := append(append([]*ssa.Call(nil), stack...), call)
		var parts []string
		for _, ret := range ssau.ReturnsOf(g) {
			if res >= len(ret.Results) {
				return "other"
			}
			parts = append(parts, e.field(ssau.ResultValue(ret, res), f, ns, d+1))
		}
		sort.Strings(parts)
		parts = dedupStrings(parts)
		if len(parts) == 1 {
			return parts[0]
		}
		if len(parts) > 1 {
			return "phi(" + strings.Join(parts, "|") + ")"
		}
	}
	return "other"
}

// Fields describes every field of the struct value sv (by field name).
func (e *ctxEval) Fields(sv ssa.Value, stack []*ssa.Call) map[string]string {
	st, ok := sv.Type().Underlying().(*types.Struct)
	if !ok {
		return nil
	}
	out := map[string]string{}
	for i := 0; i < st.NumFields(); i++ {
		out[st.Field(i).Name()] = e.field(sv, i, stack, 0)
	}
	return out
}

func dedupStrings(s []string) []string {
	var out []string
	for i, x := range s {
		if i == 0 || x != s[i-1] {
			out = append(out, x)
		}
	}
	return out
}

// reachCall finds, starting in fn under stack, a call of the function named
// target — in fn itself or in repository functions it calls statically (to
// depth 4) — and returns it with the call stack that leads to it.
func reachCall(c *Ctx, fn *ssa.Function, target string, stack []*ssa.Call, depth int) (*ssa.Call, []*ssa.Call) {
	return reachCallPred(c, fn, func(call *ssa.Call) bool { return ssau.CallName(call) == target }, stack, depth)
}

// reachCallPred is reachCall for a call recognised by a predicate.
func reachCallPred(c *Ctx, fn *ssa.Function, is func(*ssa.Call) bool, stack []*ssa.Call, depth int) (*ssa.Call, []*ssa.Call) {
	var found *ssa.Call
	var fstack []*ssa.Call
	ssau.ForEachInstr(fn, false, func(in ssa.Instruction) {
		call, ok := in.(*ssa.Call)
		if !ok || found != nil {
			return
		}
		if is(call) {
			found, fstack = call, stack
		}
	})
	if found != nil || depth <= 0 {
		return found, fstack
	}
	ssau.ForEachInstr(fn, false, func(in ssa.Instruction) {
		call, ok := in.(*ssa.Call)
		if !ok || found != nil {
			return
		}
		g := call.Common().StaticCallee()
		if g == nil || g.Blocks == nil || !c.P.IsRepoFunc(g) || g == fn {
			return
		}
		ns := append(append([]*ssa.Call(nil), stack...), call)
		if f2, s2 := reachCallPred(c, g, is, ns, depth-1); f2 != nil {
			found, fstack = f2, s2
		}
	})
	return found, fstack
}

var _ = fmt.Sprintf

// addrPath names the object an address denotes when it is (a nested field of)
// a pointer parameter of the outermost function: param:c, param:c.metrics.
func (e *ctxEval) addrPath(v ssa.Value, stack []*ssa.Call, d int) string {
	if d > 6 {
		return ""
	}
	switch x := v.(type) {
	case *ssa.Parameter:
		if len(stack) > 0 {
			top := stack[len(stack)-1]
			if top.Common().StaticCallee() == x.Parent() {
				if i := e.paramIndex(x); i >= 0 && i < len(top.Common().Args) {
					return e.addrPath(top.Common().Args[i], stack[:len(stack)-1], d+1)
				}
			}
			return ""
		}
		return "param:" + x.Name()
	case *ssa.FieldAddr:
		base := e.addrPath(x.X, stack, d+1)
		if base == "" {
			return ""
		}
		return base + "." + ssau.FieldName(x)
	}
	return ""
}

// fieldNameOf: the name of field #f of the struct (pointed to by) t.
func fieldNameOf(t types.Type, f int) string {
	if p, ok := t.Underlying().(*types.Pointer); ok {
		t = p.Elem()
	}
	if st, ok := t.Underlying().(*types.Struct); ok && f < st.NumFields() {
		return st.Field(f).Name()
	}
	return fmt.Sprintf("#%d", f)
}

// liveStores: of the stores into one local location, those that can be in
// force at instruction at of the same function: a store that cannot reach at
// is dropped, and so is one that another store overwrites on every path to
// at (it dominates that store, which dominates at). With at == nil, or in
// another function (a captured variable), all of them.
func liveStores(sts []*ssa.Store, at ssa.Instruction) []*ssa.Store {
	if at == nil || len(sts) < 2 {
		return sts
	}
	before := func(a, b ssa.Instruction) bool { // a precedes b in one block
		for _, in := range a.Block().Instrs {
			if in == a {
				return true
			}
			if in == b {
				return false
			}
		}
		return false
	}
	dom := func(a, b ssa.Instruction) bool {
		if a.Block() == b.Block() {
			return before(a, b)
		}
		return a.Block().Dominates(b.Block())
	}
	reaches := func(s *ssa.Store) bool {
		if s.Block() == at.Block() {
			return before(s, at) || ssau.Reachable(s.Block(), at.Block(), nil)
		}
		return ssau.Reachable(s.Block(), at.Block(), nil)
	}
	var out []*ssa.Store
	for _, s := range sts {
		if s.Parent() != at.Parent() {
			return sts
		}
		if !reaches(s) {
			continue
		}
		killed := false
		for _, k := range sts {
			if k != s && dom(s, k) && dom(k, at) {
				killed = true
			}
		}
		if !killed {
			out = append(out, s)
		}
	}
	return out
}
