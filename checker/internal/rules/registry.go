// Package rules holds one file per property (cNN.go). Each registers a
// function that inspects the loaded program and records obligations.
package rules

import (
	"wtfverif/checker/internal/load"
	"wtfverif/checker/internal/report"
)

// Ctx is what a rule sees.
type Ctx struct {
	P    *load.Program
	R    *report.Report
	Tier string
	// withWrappers makes reachClosure return synthetic wrappers (bound
	// methods, thunks) too, for analyses that must follow values through them.
	withWrappers bool
}

// Rule is the entry point of one property's rules.
type Rule struct {
	Prop string
	// Explanation / NotDecided / Assumptions are copied into the evidence file.
	Explanation string
	NotDecided  []string
	Assumptions []string
	Run         func(*Ctx)
}

var registry = map[string]*Rule{}

func register(r *Rule) {
	run := r.Run
	r.Run = func(c *Ctx) {
		curCtx = c
		optAliasMemo = map[string]bool{}
		run(c)
	}
	registry[r.Prop] = r
}

// curCtx is the context of the rule being run (one rule per process run and
// configuration); used by helpers that need the program without being handed it.
var curCtx *Ctx

// Get returns the rule set for a property id.
func Get(prop string) *Rule { return registry[prop] }

// Props lists the registered property ids.
func Props() []string {
	var out []string
	for k := range registry {
		out = append(out, k)
	}
	return out
}
