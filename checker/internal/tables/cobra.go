// Package tables extracts declarative tables from the program (engine E5 of
// DESIGN.md): the cobra command tree with every flag registration and flag
// read, struct field/tag tables and typed constants.
package tables

import (
	"go/token"
	"go/types"
	"sort"
	"strings"
	"unicode"

	"golang.org/x/tools/go/ssa"

	"wtfverif/checker/internal/ssau"
)

const (
	cobraCmd  = "github.com/spf13/cobra.Command"
	pflagSet  = "(*github.com/spf13/pflag.FlagSet)."
	cobraMeth = "(*github.com/spf13/cobra.Command)."
)

// Flag is one flag registration.
type Flag struct {
	Cmd        string // package-level command variable the flag set belongs to ("" = local command value)
	Persistent bool
	Name       string
	Short      string
	Kind       string // bool, int, string, stringSlice, ...
	Pos        token.Pos
	ConstName  bool // name and shorthand are compile-time constants
}

// FlagRead is one Flags().GetXxx("name") call.
type FlagRead struct {
	Fn    *ssa.Function // function containing the read
	Name  string
	Kind  string
	Pos   token.Pos
	Const bool
	Call  *ssa.Call
}

// Cmd is a cobra command held in a package-level variable.
type Cmd struct {
	Var     string
	Global  *ssa.Global
	Use     string
	Version bool // Version field set (cobra adds --version)
	Run     *ssa.Function
	// ArgsLo/ArgsHi: the positional-argument count cobra enforces before Run
	// (Args: cobra.ExactArgs(n), MinimumNArgs(n), ...); ArgsHi < 0 = no
	// upper limit. ArgsSet tells whether an Args validator was recognised.
	ArgsLo, ArgsHi int
	ArgsSet        bool
	Parent         string
	Children       []string
	Flags          []Flag
}

// Tree is the command tree of package cli.
type Tree struct {
	Cmds  map[string]*Cmd
	Reads []FlagRead
	// Delegates maps a command variable to the commands whose Run it invokes
	// (rootCmd.Run calls searchCmd.Run).
	Delegates  map[string][]string
	Unresolved []string
}

func kindOf(method string) (kind string, nameIdx, shortIdx int, ok bool) {
	m := method
	isVar, isP := false, false
	if strings.HasSuffix(m, "VarP") {
		m, isVar, isP = strings.TrimSuffix(m, "VarP"), true, true
	} else if strings.HasSuffix(m, "Var") && m != "Var" {
		m, isVar = strings.TrimSuffix(m, "Var"), true
	} else if strings.HasSuffix(m, "P") && m != "P" {
		m, isP = strings.TrimSuffix(m, "P"), true
	}
	if m == "" || m == "Var" || m == "Parse" || strings.HasPrefix(m, "Get") || strings.HasPrefix(m, "Set") || strings.HasPrefix(m, "Lookup") ||
		strings.HasPrefix(m, "Visit") || strings.HasPrefix(m, "Mark") || strings.HasPrefix(m, "Add") || strings.HasPrefix(m, "Has") ||
		strings.HasPrefix(m, "Changed") || strings.HasPrefix(m, "Flag") || strings.HasPrefix(m, "Arg") || strings.HasPrefix(m, "N") || strings.HasPrefix(m, "Shorthand") {
		return "", 0, 0, false
	}
	r := []rune(m)
	r[0] = unicode.ToLower(r[0])
	nameIdx = 1
	if isVar {
		nameIdx = 2
	}
	shortIdx = -1
	if isP {
		shortIdx = nameIdx + 1
	}
	return string(r), nameIdx, shortIdx, true
}

// cmdVarOf resolves the command a FlagSet value belongs to: the result of
// (*cobra.Command).Flags/PersistentFlags/LocalFlags on a command loaded from a
// package-level variable.
func cmdVarOf(fs ssa.Value) (name string, persistent, ok bool) {
	call, isCall := fs.(*ssa.Call)
	if !isCall {
		return "", false, false
	}
	n := ssau.CallName(call)
	switch n {
	case cobraMeth + "Flags", cobraMeth + "LocalFlags":
	case cobraMeth + "PersistentFlags":
		persistent = true
	default:
		return "", false, false
	}
	return globalOf(call.Common().Args[0]), persistent, true
}

// globalOf returns the name of the package-level variable v was loaded from.
func globalOf(v ssa.Value) string {
	if u, ok := v.(*ssa.UnOp); ok && u.Op == token.MUL {
		if g, ok := u.X.(*ssa.Global); ok {
			return g.Name()
		}
	}
	return ""
}

// CobraTree extracts the command tree from the SSA package of internal/cli.
func CobraTree(pkg *ssa.Package, fns []*ssa.Function) *Tree {
	t := &Tree{Cmds: map[string]*Cmd{}, Delegates: map[string][]string{}}
	// commands: package-level *cobra.Command variables
	for _, mem := range pkg.Members {
		g, ok := mem.(*ssa.Global)
		if !ok {
			continue
		}
		pt, ok := g.Type().(*types.Pointer)
		if !ok {
			continue
		}
		if ssau.NamedOf(pt.Elem()) == cobraCmd {
			t.Cmds[g.Name()] = &Cmd{Var: g.Name(), Global: g}
		}
	}
	inPkg := func(fn *ssa.Function) bool {
		for fn.Parent() != nil {
			fn = fn.Parent()
		}
		return fn.Pkg == pkg
	}
	for _, fn := range fns {
		if !inPkg(fn) {
			continue
		}
		ssau.ForEachInstr(fn, false, func(in ssa.Instruction) {
			switch x := in.(type) {
			case *ssa.Store:
				// composite literal fields of a command stored into a global
				if g, ok := x.Addr.(*ssa.Global); ok {
					if c := t.Cmds[g.Name()]; c != nil {
						if al, ok := x.Val.(*ssa.Alloc); ok {
							fillCmd(c, al)
						}
					}
				}
			case *ssa.Call:
				name := ssau.CallName(x)
				args := x.Common().Args
				switch {
				case name == cobraMeth+"AddCommand":
					parent := globalOf(args[0])
					kids := variadicGlobals(args[1])
					if parent == "" {
						// local command (test helper): not part of the shipped tree
						return
					}
					if kids == nil {
						t.Unresolved = append(t.Unresolved, "AddCommand with unresolved children")
						return
					}
					for _, k := range kids {
						if c := t.Cmds[k]; c != nil {
							c.Parent = parent
						}
						if p := t.Cmds[parent]; p != nil {
							p.Children = append(p.Children, k)
						}
					}
				case strings.HasPrefix(name, pflagSet):
					m := strings.TrimPrefix(name, pflagSet)
					if strings.HasPrefix(m, "Get") {
						kind := m[3:]
						r := []rune(kind)
						r[0] = unicode.ToLower(r[0])
						nm, isc := ssau.ConstString(args[1])
						t.Reads = append(t.Reads, FlagRead{Fn: fn, Name: nm, Kind: string(r), Pos: x.Pos(), Const: isc, Call: x})
						return
					}
					kind, ni, si, ok := kindOf(m)
					if !ok || ni >= len(args) {
						return
					}
					cmdVar, pers, res := cmdVarOf(args[0])
					if !res {
						t.Unresolved = append(t.Unresolved, "flag registration on an unresolved flag set in "+fn.String())
						return
					}
					// a registration helper: func addFlags(cmd *cobra.Command) { cmd.Flags()... }
					// registers on every command it is called with
					if cmdVar == "" {
						if fsCall, isCall := args[0].(*ssa.Call); isCall {
							if par, isPar := fsCall.Common().Args[0].(*ssa.Parameter); isPar && par.Parent() == fn {
								idx := -1
								for i, q := range fn.Params {
									if q == par {
										idx = i
									}
								}
								var targets []string
								resolved := idx >= 0
								for _, caller := range fns {
									if !inPkg(caller) {
										continue
									}
									ssau.ForEachInstr(caller, false, func(in2 ssa.Instruction) {
										hc, ok := in2.(*ssa.Call)
										if !ok || hc.Common().StaticCallee() != fn || idx < 0 || idx >= len(hc.Common().Args) {
											return
										}
										if g := globalOf(hc.Common().Args[idx]); g != "" {
											targets = append(targets, g)
										} else {
											resolved = false
										}
									})
								}
								if !resolved || len(targets) == 0 {
									t.Unresolved = append(t.Unresolved, "flag registration helper "+fn.String()+" called with an unresolved command")
									return
								}
								for _, tv := range targets {
									f := Flag{Cmd: tv, Persistent: pers, Kind: kind, Pos: x.Pos(), ConstName: true}
									var isc bool
									f.Name, isc = ssau.ConstString(args[ni])
									if !isc {
										f.ConstName = false
									}
									if si >= 0 && si < len(args) {
										f.Short, isc = ssau.ConstString(args[si])
										if !isc {
											f.ConstName = false
										}
									}
									if c := t.Cmds[tv]; c != nil {
										c.Flags = append(c.Flags, f)
									} else {
										t.Unresolved = append(t.Unresolved, "flag on unknown command variable "+tv)
									}
								}
								return
							}
						}
					}
					f := Flag{Cmd: cmdVar, Persistent: pers, Kind: kind, Pos: x.Pos(), ConstName: true}
					var isc bool
					f.Name, isc = ssau.ConstString(args[ni])
					if !isc {
						f.ConstName = false
					}
					if si >= 0 && si < len(args) {
						f.Short, isc = ssau.ConstString(args[si])
						if !isc {
							f.ConstName = false
						}
					}
					if c := t.Cmds[cmdVar]; c != nil {
						c.Flags = append(c.Flags, f)
					} else if cmdVar != "" {
						t.Unresolved = append(t.Unresolved, "flag on unknown command variable "+cmdVar)
					}
				}
			}
		})
	}
	// delegation: a Run closure that calls another command's Run
	for _, c := range t.Cmds {
		if c.Run == nil {
			continue
		}
		ssau.ForEachInstr(c.Run, true, func(in ssa.Instruction) {
			call, ok := in.(*ssa.Call)
			if !ok || call.Common().IsInvoke() {
				return
			}
			// callee value: load of FieldAddr(load global, Run)
			if u, ok := call.Common().Value.(*ssa.UnOp); ok {
				if fa, ok := u.X.(*ssa.FieldAddr); ok && ssau.FieldName(fa) == "Run" {
					if g := globalOf(fa.X); g != "" {
						t.Delegates[c.Var] = append(t.Delegates[c.Var], g)
					}
				}
			}
		})
	}
	for _, c := range t.Cmds {
		sort.Strings(c.Children)
	}
	return t
}

func fillCmd(c *Cmd, al *ssa.Alloc) {
	for _, ref := range *al.Referrers() {
		fa, ok := ref.(*ssa.FieldAddr)
		if !ok {
			continue
		}
		for _, r2 := range *fa.Referrers() {
			st, ok := r2.(*ssa.Store)
			if !ok || st.Addr != ssa.Value(fa) {
				continue
			}
			switch ssau.FieldName(fa) {
			case "Use":
				c.Use, _ = ssau.ConstString(st.Val)
			case "Version":
				c.Version = true
			case "Args":
				if call, ok := st.Val.(*ssa.Call); ok {
					n := func(i int) int {
						if i < len(call.Common().Args) {
							if v, ok := ssau.ConstInt(call.Common().Args[i]); ok {
								return int(v)
							}
						}
						return -1
					}
					switch ssau.CallName(call) {
					case "github.com/spf13/cobra.ExactArgs":
						if k := n(0); k >= 0 {
							c.ArgsLo, c.ArgsHi, c.ArgsSet = k, k, true
						}
					case "github.com/spf13/cobra.MinimumNArgs":
						if k := n(0); k >= 0 {
							c.ArgsLo, c.ArgsHi, c.ArgsSet = k, -1, true
						}
					case "github.com/spf13/cobra.MaximumNArgs":
						if k := n(0); k >= 0 {
							c.ArgsLo, c.ArgsHi, c.ArgsSet = 0, k, true
						}
					case "github.com/spf13/cobra.RangeArgs":
						if a, b := n(0), n(1); a >= 0 && b >= a {
							c.ArgsLo, c.ArgsHi, c.ArgsSet = a, b, true
						}
					}
				}
			case "Run":
				switch f := st.Val.(type) {
				case *ssa.Function:
					c.Run = f
				case *ssa.MakeClosure:
					c.Run = f.Fn.(*ssa.Function)
				}
			}
		}
	}
}

// variadicGlobals resolves the elements of a variadic argument slice that are
// loads of package-level variables.
func variadicGlobals(v ssa.Value) []string {
	sl, ok := v.(*ssa.Slice)
	if !ok {
		return nil
	}
	al, ok := sl.X.(*ssa.Alloc)
	if !ok {
		return nil
	}
	var out []string
	for _, ref := range *al.Referrers() {
		ia, ok := ref.(*ssa.IndexAddr)
		if !ok {
			continue
		}
		for _, r2 := range *ia.Referrers() {
			if st, ok := r2.(*ssa.Store); ok && st.Addr == ssa.Value(ia) {
				g := globalOf(st.Val)
				if g == "" {
					return nil
				}
				out = append(out, g)
			}
		}
	}
	return out
}

// Ancestors lists the command's ancestors from nearest to root.
func (t *Tree) Ancestors(v string) []string {
	var out []string
	seen := map[string]bool{v: true}
	for c := t.Cmds[v]; c != nil && c.Parent != "" && !seen[c.Parent]; c = t.Cmds[c.Parent] {
		out = append(out, c.Parent)
		seen[c.Parent] = true
	}
	return out
}

// MergeResult is the outcome of cobra/pflag's flag merge for one command.
type MergeResult struct {
	// Effective maps flag name -> the registration that wins.
	Effective map[string]Flag
	// Panics lists the collisions that make pflag panic before Run.
	Panics []string
}

// Merge simulates (*cobra.Command).mergePersistentFlags + InitDefaultHelpFlag
// with pflag v1.0.6 semantics: within one flag set a repeated name or
// shorthand panics; when a parent's persistent set is added, same-name flags
// are skipped silently and a reused shorthand on a new name panics; cobra then
// adds help/h unless a flag named help exists.
func (t *Tree) Merge(v string) MergeResult {
	res := MergeResult{Effective: map[string]Flag{}}
	c := t.Cmds[v]
	if c == nil {
		return res
	}
	short := map[string]string{} // shorthand -> flag name
	addSet := func(flags []Flag, sameSetStrict bool, origin string) {
		seenInSet := map[string]bool{}
		for _, f := range flags {
			if _, dup := res.Effective[f.Name]; dup {
				if sameSetStrict && seenInSet[f.Name] {
					res.Panics = append(res.Panics, "flag --"+f.Name+" is defined twice in the same flag set of "+origin)
				}
				continue // AddFlagSet ignores flags already present by name
			}
			if f.Short != "" {
				if len(f.Short) > 1 {
					res.Panics = append(res.Panics, "shorthand "+f.Short+" of --"+f.Name+" is longer than one character")
				}
				if other, used := short[f.Short]; used {
					res.Panics = append(res.Panics, "shorthand -"+f.Short+" of --"+f.Name+" ("+origin+") is already used for --"+other)
					continue
				}
				short[f.Short] = f.Name
			}
			res.Effective[f.Name] = f
			seenInSet[f.Name] = true
		}
	}
	var local, pers []Flag
	for _, f := range c.Flags {
		if f.Persistent {
			pers = append(pers, f)
		} else {
			local = append(local, f)
		}
	}
	addSet(local, true, v+" local flags")
	addSet(pers, true, v+" persistent flags")
	for _, a := range t.Ancestors(v) {
		var ap []Flag
		for _, f := range t.Cmds[a].Flags {
			if f.Persistent {
				ap = append(ap, f)
			}
		}
		addSet(ap, false, a+" persistent flags")
	}
	if _, has := res.Effective["help"]; !has {
		addSet([]Flag{{Name: "help", Short: "h", Kind: "bool"}}, false, "cobra default help flag")
	}
	return res
}
