// Package lockset is the lock-set engine (E4 of DESIGN.md): for a struct type
// that carries a sync.Mutex / sync.RWMutex field it computes, for every
// instruction of every function that touches the struct through a given base
// pointer, which lock mode is held, and classifies each access to the
// struct's other fields (and to the contents of maps, slices and
// container/list lists held in them) as a read or a write.
package lockset

import (
	"go/token"
	"go/types"
	"sort"

	"golang.org/x/tools/go/ssa"

	"wtfverif/checker/internal/ssau"
)

// Mode is the lock mode held at a program point.
type Mode int

const (
	None Mode = iota
	Shared
	Excl
	// Mixed: different modes arrive on different paths.
	Mixed
)

func (m Mode) String() string {
	return [...]string{"none", "shared", "exclusive", "mixed"}[m]
}

// meet: what is guaranteed when control can arrive in either mode. Shared and
// exclusive together guarantee (at least) the shared lock; a path without the
// lock guarantees nothing, which stays visible as Mixed.
func meet(a, b Mode) Mode {
	if a == b {
		return a
	}
	if (a == Shared && b == Excl) || (a == Excl && b == Shared) {
		return Shared
	}
	return Mixed
}

// Guarded describes one mutex-bearing struct.
type Guarded struct {
	Type  string // "pkgpath.Name"
	Mutex string // field name of the mutex
	RW    bool
}

// Access is one read or write of guarded state.
type Access struct {
	Fn       *ssa.Function
	Instr    ssa.Instruction
	Field    string // field of the guarded struct (or "Entry.Value" style for satellite objects)
	Contents bool   // the access is to what the field holds (map/list/slice elements), not the field itself
	Write    bool
	Mode     Mode
}

// FindGuarded lists the named struct types of pkg that have a mutex field.
func FindGuarded(pkgs []*types.Package) []Guarded {
	var out []Guarded
	for _, pkg := range pkgs {
		sc := pkg.Scope()
		for _, n := range sc.Names() {
			tn, ok := sc.Lookup(n).(*types.TypeName)
			if !ok {
				continue
			}
			st, ok := tn.Type().Underlying().(*types.Struct)
			if !ok {
				continue
			}
			for i := 0; i < st.NumFields(); i++ {
				switch ssau.NamedOf(st.Field(i).Type()) {
				case "sync.Mutex":
					out = append(out, Guarded{Type: pkg.Path() + "." + n, Mutex: st.Field(i).Name()})
				case "sync.RWMutex":
					out = append(out, Guarded{Type: pkg.Path() + "." + n, Mutex: st.Field(i).Name(), RW: true})
				}
			}
		}
	}
	sort.Slice(out, func(i, j int) bool { return out[i].Type < out[j].Type })
	return out
}

// Analysis is the result for one guarded struct.
type Analysis struct {
	G        Guarded
	Funcs    []*ssa.Function        // functions that touch the struct through a parameter/receiver base
	EntryOf  map[*ssa.Function]Mode // lock mode assumed at entry
	Accesses []Access
	// Acquires counts Lock/RLock call sites per function.
	Acquires map[*ssa.Function][]ssa.Instruction
	// ModeAt gives the mode before each instruction.
	ModeAt map[ssa.Instruction]Mode
	// Unbalanced lists returns reached with a lock held and no deferred unlock.
	Unbalanced []*ssa.Return
}

// baseOf returns the parameter (or receiver) of fn whose type is *G.Type.
func baseOf(fn *ssa.Function, g Guarded) ssa.Value {
	for _, p := range fn.Params {
		if ssau.NamedOf(p.Type()) == g.Type {
			if _, ok := p.Type().(*types.Pointer); ok {
				return p
			}
		}
	}
	return nil
}

// lockOp classifies a call on base's mutex: +1 Lock, +2 RLock, -1 Unlock, -2 RUnlock.
func lockOp(c ssa.CallInstruction, g Guarded, base ssa.Value) int {
	name := ssau.CallName(c)
	args := c.Common().Args
	if len(args) == 0 {
		return 0
	}
	fa, ok := ssau.IsFieldAddr(args[0], g.Type, g.Mutex)
	if !ok || fa.X != base {
		return 0
	}
	switch name {
	case "(*sync.Mutex).Lock", "(*sync.RWMutex).Lock":
		return 1
	case "(*sync.RWMutex).RLock":
		return 2
	case "(*sync.Mutex).Unlock", "(*sync.RWMutex).Unlock":
		return -1
	case "(*sync.RWMutex).RUnlock":
		return -2
	}
	return 0
}

// Analyze runs the engine for g over the given candidate functions (all repo
// functions; those without a *G base are skipped). isEntry tells whether a
// function can be called from outside the struct's own code (then its entry
// mode is None); otherwise the entry mode is the meet over its call sites.
func Analyze(g Guarded, fns []*ssa.Function, isEntry func(*ssa.Function) bool) *Analysis {
	a := &Analysis{G: g, EntryOf: map[*ssa.Function]Mode{}, Acquires: map[*ssa.Function][]ssa.Instruction{}, ModeAt: map[ssa.Instruction]Mode{}}
	for _, fn := range fns {
		if baseOf(fn, g) != nil && fn.Blocks != nil {
			a.Funcs = append(a.Funcs, fn)
		}
	}
	inSet := map[*ssa.Function]bool{}
	for _, fn := range a.Funcs {
		inSet[fn] = true
	}
	// entry modes: iterate to a fixpoint (helpers called from helpers)
	for _, fn := range a.Funcs {
		a.EntryOf[fn] = None
	}
	type site struct {
		caller *ssa.Function
		call   ssa.CallInstruction
	}
	callSites := map[*ssa.Function][]site{}
	for _, fn := range a.Funcs {
		base := baseOf(fn, g)
		ssau.ForEachInstr(fn, false, func(in ssa.Instruction) {
			c := ssau.AsCall(in)
			if c == nil {
				return
			}
			cal := c.Common().StaticCallee()
			if cal == nil || !inSet[cal] {
				return
			}
			// the callee's base must be the caller's base
			for i, p := range cal.Params {
				if ssa.Value(p) == baseOf(cal, g) && i < len(c.Common().Args) && c.Common().Args[i] == base {
					callSites[cal] = append(callSites[cal], site{fn, c})
				}
			}
		})
	}
	for iter := 0; iter < 6; iter++ {
		a.ModeAt = map[ssa.Instruction]Mode{}
		for _, fn := range a.Funcs {
			a.flow(fn)
		}
		changed := false
		for _, fn := range a.Funcs {
			if isEntry(fn) || len(callSites[fn]) == 0 {
				continue
			}
			m := Mode(-1)
			for _, s := range callSites[fn] {
				sm := a.ModeAt[s.call.(ssa.Instruction)]
				if m == -1 {
					m = sm
				} else {
					m = meet(m, sm)
				}
			}
			if m != a.EntryOf[fn] {
				a.EntryOf[fn] = m
				changed = true
			}
		}
		if !changed {
			break
		}
	}
	// collect accesses
	a.Accesses = nil
	a.Unbalanced = nil
	a.Acquires = map[*ssa.Function][]ssa.Instruction{}
	for _, fn := range a.Funcs {
		a.collect(fn)
	}
	return a
}

// flow computes ModeAt for every instruction of fn.
func (a *Analysis) flow(fn *ssa.Function) {
	base := baseOf(fn, a.G)
	in := make([]Mode, len(fn.Blocks))
	seen := make([]bool, len(fn.Blocks))
	work := []*ssa.BasicBlock{fn.Blocks[0]}
	in[0] = a.EntryOf[fn]
	seen[0] = true
	for len(work) > 0 {
		b := work[len(work)-1]
		work = work[:len(work)-1]
		m := in[b.Index]
		for _, ins := range b.Instrs {
			a.ModeAt[ins] = m
			if c, ok := ins.(*ssa.Call); ok {
				switch lockOp(c, a.G, base) {
				case 1:
					m = Excl
				case 2:
					m = Shared
				case -1, -2:
					m = None
				}
			}
			// deferred unlocks keep the lock until the function returns
		}
		for _, s := range b.Succs {
			if !seen[s.Index] {
				seen[s.Index] = true
				in[s.Index] = m
				work = append(work, s)
			} else if nm := meet(in[s.Index], m); nm != in[s.Index] {
				in[s.Index] = nm
				work = append(work, s)
			}
		}
	}
}

func (a *Analysis) collect(fn *ssa.Function) {
	g := a.G
	base := baseOf(fn, g)
	hasDeferredUnlock := false
	ssau.ForEachInstr(fn, false, func(in ssa.Instruction) {
		if d, ok := in.(*ssa.Defer); ok {
			if op := lockOp(d, g, base); op < 0 {
				hasDeferredUnlock = true
			}
		}
		if c, ok := in.(*ssa.Call); ok {
			if op := lockOp(c, g, base); op > 0 {
				a.Acquires[fn] = append(a.Acquires[fn], in)
			}
		}
	})
	for _, r := range ssau.ReturnsOf(fn) {
		if m := a.ModeAt[r]; m != None && m != a.EntryOf[fn] && !hasDeferredUnlock {
			a.Unbalanced = append(a.Unbalanced, r)
		}
	}
	add := func(in ssa.Instruction, field string, contents, write bool) {
		a.Accesses = append(a.Accesses, Access{Fn: fn, Instr: in, Field: field, Contents: contents, Write: write, Mode: a.ModeAt[in]})
	}
	// field accesses through base
	ssau.ForEachInstr(fn, false, func(in ssa.Instruction) {
		fa, ok := in.(*ssa.FieldAddr)
		if !ok || fa.X != base || ssau.NamedOf(fa.X.Type()) != g.Type {
			return
		}
		f := ssau.FieldName(fa)
		if f == g.Mutex {
			return
		}
		for _, ref := range *fa.Referrers() {
			switch u := ref.(type) {
			case *ssa.Store:
				if u.Addr == ssa.Value(fa) {
					add(u, f, false, true)
				}
			case *ssa.UnOp:
				if u.Op == token.MUL {
					add(u, f, false, false)
					a.contentUses(fn, u, f, add)
				}
			case ssa.CallInstruction:
				// &base.f passed to a call (e.g. sync/atomic): recorded as a
				// read of the field header; atomic discipline is checked separately
			}
		}
	})
}

var listMutators = map[string]bool{
	"PushFront": true, "PushBack": true, "InsertBefore": true, "InsertAfter": true, "Remove": true,
	"MoveToFront": true, "MoveToBack": true, "MoveBefore": true, "MoveAfter": true, "Init": true,
	"PushBackList": true, "PushFrontList": true,
}

// contentUses classifies what is done with the value loaded from a field.
func (a *Analysis) contentUses(fn *ssa.Function, v ssa.Value, field string, add func(ssa.Instruction, string, bool, bool)) {
	refs := v.Referrers()
	if refs == nil {
		return
	}
	for _, ref := range *refs {
		switch u := ref.(type) {
		case *ssa.MapUpdate:
			if u.Map == v {
				add(u, field, true, true)
			}
		case *ssa.Lookup:
			if u.X == v {
				add(u, field, true, false)
			}
		case *ssa.Range:
			add(u, field, true, false)
		case *ssa.IndexAddr:
			if u.X != v {
				continue
			}
			for _, r2 := range *u.Referrers() {
				switch w := r2.(type) {
				case *ssa.Store:
					if w.Addr == ssa.Value(u) {
						add(w, field, true, true)
					}
				case *ssa.UnOp:
					add(w, field, true, false)
				}
			}
		case *ssa.Index:
			add(u, field, true, false)
		case ssa.CallInstruction:
			name := ssau.CallName(u)
			args := u.Common().Args
			switch {
			case name == "builtin.delete" && len(args) > 0 && args[0] == v:
				add(u.(ssa.Instruction), field, true, true)
			case name == "builtin.len" || name == "builtin.cap":
				add(u.(ssa.Instruction), field, true, false)
			case len(args) > 0 && args[0] == v && len(name) > len("(*container/list.List).") && name[:len("(*container/list.List).")] == "(*container/list.List).":
				m := name[len("(*container/list.List)."):]
				add(u.(ssa.Instruction), field, true, listMutators[m])
			default:
				// value handed to another function: if that function is generic
				// storage access (getOrCreate) the caller binds it; recorded as read
				if cal := u.Common().StaticCallee(); cal != nil {
					for i, arg := range args {
						if arg == v && i < len(cal.Params) {
							a.paramContentUses(fn, u.(ssa.Instruction), cal, cal.Params[i], field, add)
						}
					}
				}
			}
		}
	}
}

// paramContentUses handles a field's container being passed as an argument to
// a callee that has the same guarded base (the generic getOrCreate): the
// callee's uses of the parameter are attributed to the field, with the lock
// mode in force inside the callee.
func (a *Analysis) paramContentUses(caller *ssa.Function, site ssa.Instruction, callee *ssa.Function, p *ssa.Parameter, field string, add func(ssa.Instruction, string, bool, bool)) {
	if callee.Blocks == nil || baseOf(callee, a.G) == nil {
		return
	}
	sub := func(in ssa.Instruction, f string, contents, write bool) {
		a.Accesses = append(a.Accesses, Access{Fn: callee, Instr: in, Field: f, Contents: contents, Write: write, Mode: a.ModeAt[in]})
	}
	a.contentUses(callee, p, field, sub)
}
