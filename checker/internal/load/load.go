// Package load type-checks the repository under analysis and builds the SSA
// program and call graph that every rule works on (engine E1 of DESIGN.md).
//
// Nothing in here executes repository code: go/packages parses and
// type-checks, go/ssa builds the intermediate representation, cha+vta resolve
// dynamic calls.
package load

import (
	"fmt"
	"go/ast"
	"go/token"
	"go/types"
	"os"
	"path/filepath"
	"sort"
	"strings"

	"golang.org/x/tools/go/callgraph"
	"golang.org/x/tools/go/callgraph/cha"
	"golang.org/x/tools/go/callgraph/vta"
	"golang.org/x/tools/go/packages"
	"golang.org/x/tools/go/ssa"
	"golang.org/x/tools/go/ssa/ssautil"
)

// ModulePath is the module under analysis.
const ModulePath = "github.com/Vedant9500/WTF"

// MinRepoPackages is the number of non-test packages the pinned tree has; a
// load that sees fewer analysed nothing useful and must not yield a verdict.
const MinRepoPackages = 17

// Program is the loaded, type-checked, SSA-built repository.
type Program struct {
	RepoDir string
	GOOS    string
	GOARCH  string
	Fset    *token.FileSet
	// Repo holds the packages of the module under analysis, sorted by path.
	Repo []*packages.Package
	// All holds every package in the import closure keyed by import path.
	All map[string]*packages.Package
	SSA *ssa.Program
	cg  *callgraph.Graph
	// funcsByObj maps a types.Func to its SSA function.
	declByFn map[*ssa.Function]ast.Node
	nFuncs   int
}

// Load loads repoDir/... for the given GOOS/GOARCH ("" = host).
func Load(repoDir, goos, goarch string) (*Program, error) {
	env := append(os.Environ(), "GOFLAGS=-mod=mod", "GOWORK=off", "GOPROXY=off", "CGO_ENABLED=0")
	if goos != "" {
		env = append(env, "GOOS="+goos)
	}
	if goarch != "" {
		env = append(env, "GOARCH="+goarch)
	}
	fset := token.NewFileSet()
	cfg := &packages.Config{
		Mode:  packages.LoadAllSyntax,
		Dir:   repoDir,
		Env:   env,
		Fset:  fset,
		Tests: false,
	}
	pkgs, err := packages.Load(cfg, "./...")
	if err != nil {
		return nil, fmt.Errorf("packages.Load: %w", err)
	}
	p := &Program{RepoDir: repoDir, GOOS: goos, GOARCH: goarch, Fset: fset, All: map[string]*packages.Package{}}
	var errs []string
	packages.Visit(pkgs, nil, func(pk *packages.Package) {
		p.All[pk.PkgPath] = pk
		if strings.HasPrefix(pk.PkgPath, ModulePath) {
			for _, e := range pk.Errors {
				errs = append(errs, e.Error())
			}
			if pk.IllTyped {
				errs = append(errs, pk.PkgPath+": ill-typed")
			}
		}
	})
	if len(errs) > 0 {
		sort.Strings(errs)
		return nil, fmt.Errorf("repository does not type-check: %s", strings.Join(errs, "; "))
	}
	for _, pk := range pkgs {
		if strings.HasPrefix(pk.PkgPath, ModulePath) {
			p.Repo = append(p.Repo, pk)
		}
	}
	sort.Slice(p.Repo, func(i, j int) bool { return p.Repo[i].PkgPath < p.Repo[j].PkgPath })
	if len(p.Repo) < MinRepoPackages {
		return nil, fmt.Errorf("only %d packages of %s loaded (need >= %d): refusing to give a verdict", len(p.Repo), ModulePath, MinRepoPackages)
	}
	prog, _ := ssautil.AllPackages(pkgs, ssa.InstantiateGenerics)
	prog.Build()
	p.SSA = prog
	p.declByFn = map[*ssa.Function]ast.Node{}
	for fn := range ssautil.AllFunctions(prog) {
		p.nFuncs++
		if fn.Syntax() != nil {
			p.declByFn[fn] = fn.Syntax()
		}
	}
	return p, nil
}

// NumFuncs is the number of SSA functions in the whole program (incl. std).
func (p *Program) NumFuncs() int { return p.nFuncs }

// CallGraph builds (once) the VTA call graph seeded by CHA.
func (p *Program) CallGraph() *callgraph.Graph {
	if p.cg == nil {
		all := ssautil.AllFunctions(p.SSA)
		p.cg = vta.CallGraph(all, cha.CallGraph(p.SSA))
	}
	return p.cg
}

// Pkg returns the repo package whose import path ends in suffix
// (e.g. "internal/database"), or nil.
func (p *Program) Pkg(suffix string) *packages.Package {
	for _, pk := range p.Repo {
		if pk.PkgPath == ModulePath+"/"+suffix || pk.PkgPath == suffix {
			return pk
		}
	}
	return nil
}

// SSAPkg returns the SSA package for a repo package suffix.
func (p *Program) SSAPkg(suffix string) *ssa.Package {
	pk := p.Pkg(suffix)
	if pk == nil {
		return nil
	}
	return p.SSA.Package(pk.Types)
}

// AnyPkg returns any package in the import closure by full import path.
func (p *Program) AnyPkg(path string) *packages.Package { return p.All[path] }

// Func resolves a function or method of a repo package. recv is "" for
// package-level functions, otherwise the receiver's named type.
func (p *Program) Func(pkgSuffix, recv, name string) *ssa.Function {
	sp := p.SSAPkg(pkgSuffix)
	if sp == nil {
		return nil
	}
	return FuncIn(p.SSA, sp, recv, name)
}

// FuncIn resolves a function or method in an SSA package.
func FuncIn(prog *ssa.Program, sp *ssa.Package, recv, name string) *ssa.Function {
	if recv == "" {
		return sp.Func(name)
	}
	obj := sp.Pkg.Scope().Lookup(recv)
	tn, ok := obj.(*types.TypeName)
	if !ok {
		return nil
	}
	for _, t := range []types.Type{tn.Type(), types.NewPointer(tn.Type())} {
		ms := prog.MethodSets.MethodSet(t)
		for i := 0; i < ms.Len(); i++ {
			sel := ms.At(i)
			if sel.Obj().Name() == name && sel.Obj().Pkg() == sp.Pkg {
				if f := prog.MethodValue(sel); f != nil && f.Synthetic == "" {
					return f
				}
			}
		}
	}
	// unexported / not in method set via embedding: scan declared methods
	if named, ok := tn.Type().(*types.Named); ok {
		for i := 0; i < named.NumMethods(); i++ {
			m := named.Method(i)
			if m.Name() == name {
				return prog.FuncValue(m)
			}
		}
	}
	return nil
}

// DepFunc resolves a package-level function or method in any package of the
// import closure (used to verify dependency contracts).
func (p *Program) DepFunc(pkgPath, recv, name string) *ssa.Function {
	pk := p.All[pkgPath]
	if pk == nil || pk.Types == nil {
		return nil
	}
	sp := p.SSA.Package(pk.Types)
	if sp == nil {
		return nil
	}
	return FuncIn(p.SSA, sp, recv, name)
}

// IsRepoFunc reports whether fn (or its enclosing function) belongs to the
// module under analysis.
func (p *Program) IsRepoFunc(fn *ssa.Function) bool {
	for fn != nil && fn.Parent() != nil {
		fn = fn.Parent()
	}
	if fn == nil {
		return false
	}
	if fn.Pkg != nil {
		return strings.HasPrefix(fn.Pkg.Pkg.Path(), ModulePath)
	}
	if o := fn.Origin(); o != nil && o.Pkg != nil {
		return strings.HasPrefix(o.Pkg.Pkg.Path(), ModulePath)
	}
	return false
}

// RepoFuncs returns all SSA functions (including closures and generic
// instances) of the module, in deterministic order.
func (p *Program) RepoFuncs() []*ssa.Function {
	var out []*ssa.Function
	for fn := range ssautil.AllFunctions(p.SSA) {
		if p.IsRepoFunc(fn) && fn.Blocks != nil {
			out = append(out, fn)
		}
	}
	sort.Slice(out, func(i, j int) bool {
		if a, b := FuncKey(out[i]), FuncKey(out[j]); a != b {
			return a < b
		}
		return out[i].Pos() < out[j].Pos()
	})
	return out
}

// Pos renders a position relative to the repository root.
func (p *Program) Pos(pos token.Pos) string {
	if !pos.IsValid() {
		return "-"
	}
	ps := p.Fset.Position(pos)
	rel, err := filepath.Rel(p.RepoDir, ps.Filename)
	if err != nil || strings.HasPrefix(rel, "..") {
		rel = ps.Filename
	}
	return fmt.Sprintf("%s:%d:%d", rel, ps.Line, ps.Column)
}

// FuncKey is the stable semantic name of a function used in construct keys:
// "database.(*Database).SearchUniversal", "cli.init$1", ...
func FuncKey(fn *ssa.Function) string {
	if fn == nil {
		return "<nil>"
	}
	s := fn.String()
	s = strings.ReplaceAll(s, ModulePath+"/internal/", "")
	s = strings.ReplaceAll(s, ModulePath+"/", "")
	return s
}

// FileOf returns the *ast.File of a repo package containing pos.
func (p *Program) FileOf(pos token.Pos) (*packages.Package, *ast.File) {
	for _, pk := range p.Repo {
		for _, f := range pk.Syntax {
			if f.FileStart <= pos && pos <= f.FileEnd {
				return pk, f
			}
		}
	}
	return nil, nil
}

// PkgOfFunc returns the packages.Package a repo SSA function belongs to.
func (p *Program) PkgOfFunc(fn *ssa.Function) *packages.Package {
	for fn != nil && fn.Parent() != nil {
		fn = fn.Parent()
	}
	if fn == nil {
		return nil
	}
	var tp *types.Package
	if fn.Pkg != nil {
		tp = fn.Pkg.Pkg
	} else if o := fn.Origin(); o != nil && o.Pkg != nil {
		tp = o.Pkg.Pkg
	}
	if tp == nil {
		return nil
	}
	return p.All[tp.Path()]
}
