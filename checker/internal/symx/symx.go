// Package symx renders SSA values as canonical symbolic expressions over
// access paths ("len(sh.Entries@v)-sh.MaxSize@v") so that rules can compare
// values that go/ssa materialises several times (it performs no common
// sub-expression elimination and reloads struct fields at every use).
//
// Memory is versioned: every load of a struct field, slice/array element, map
// element or address-taken local carries the version of that location class
// reaching the load, computed by a forward dataflow over the function in
// which stores, and calls that may store (summarised transitively over the
// statically resolved callees; unknown callees kill everything), start new
// versions and control-flow joins of different versions start a join
// version. Two loads print the same string only if no such write can lie
// between them, so string equality of expressions implies value equality at
// run time. Part of engine E6/E2 of DESIGN.md.
package symx

import (
	"fmt"
	"go/constant"
	"go/token"
	"go/types"
	"os"
	"sort"
	"strings"

	"golang.org/x/tools/go/ssa"

	"wtfverif/checker/internal/ssau"
)

// Ctx caches write summaries across functions.
type Ctx struct {
	// Pure lists callees (full names) known not to write program memory that
	// rules observe. Builtins len/cap/min/max/append are always pure.
	Pure func(name string) bool
	// IsRepo tells whether a callee's body should be summarised; others are
	// treated as pure if Pure says so and as writing everything otherwise.
	IsRepo func(*ssa.Function) bool
	// Callees resolves dynamic calls (call graph); nil = unknown callee.
	Callees func(site ssa.CallInstruction) []*ssa.Function
	sums    map[*ssa.Function]*wset
	busy    map[*ssa.Function]bool
	fns     map[*ssa.Function]*Fn
}

// wset is a may-write set of location classes; all = everything.
type wset struct {
	all  bool
	keys map[string]bool
}

func (w *wset) add(k string) {
	if w.keys == nil {
		w.keys = map[string]bool{}
	}
	w.keys[k] = true
}
func (w *wset) merge(o *wset) {
	if o == nil {
		return
	}
	if o.all {
		w.all = true
	}
	for k := range o.keys {
		w.add(k)
	}
}

// DefaultPure is a conservative list of standard-library packages whose
// functions do not write memory reachable from the analysed program's own
// data structures (they return fresh values).
func DefaultPure(name string) bool {
	for _, p := range []string{"strings.", "unicode.", "unicode/utf8.", "math.", "strconv.", "path/filepath.", "path.", "time.", "(time.", "(*time.", "fmt.Sprint", "fmt.Errorf", "fmt.Print", "fmt.Fprint", "errors.", "os.Stat", "os.Getenv", "os.LookupEnv", "os.ReadFile", "os.IsNotExist", "os.IsPermission", "os.MkdirAll", "os.UserHomeDir", "os.UserConfigDir", "os.Executable", "regexp.", "(*regexp.Regexp).", "(*strings.Builder).", "crypto/sha256.", "log.", "runtime.", "github.com/sahilm/fuzzy.Find", "(*container/list.List).", "container/list.", "(*container/list.Element).", "sync/atomic.", "encoding/json.Marshal", "crypto/sha256.", "(*sync.", "sync/atomic.Load", "(*os.File).", "(io/fs.FileInfo).", "(os.FileInfo).", "os.CreateTemp", "os.Rename", "os.Remove", "os.WriteFile", "os.Getwd", "os.ReadDir", "maps.Keys", "maps.Values", "maps.All", "slices.Sorted", "slices.Collect", "slices.Contains", "slices.Index", "slices.Equal", "slices.Max", "slices.Min", "slices.Values", "slices.All", "encoding/hex.", "sort.Search", "sort.IsSorted", "sort.SliceIsSorted", "(*bytes.Buffer).", "bytes.", "unicode/utf16.", "hash/fnv.", "iter."} {
		if strings.HasPrefix(name, p) {
			return true
		}
	}
	return false
}

func New(isRepo func(*ssa.Function) bool) *Ctx {
	return &Ctx{Pure: DefaultPure, IsRepo: isRepo, sums: map[*ssa.Function]*wset{}, busy: map[*ssa.Function]bool{}, fns: map[*ssa.Function]*Fn{}}
}

func fieldKey(fa *ssa.FieldAddr) string {
	return "f:" + ssau.NamedOf(fa.X.Type()) + "." + ssau.FieldName(fa)
}

func elemKey(t types.Type) string {
	switch u := t.Underlying().(type) {
	case *types.Pointer:
		return elemKey(u.Elem())
	case *types.Slice:
		return "e:" + u.Elem().String()
	case *types.Array:
		return "e:" + u.Elem().String()
	}
	return "e:" + t.String()
}

func mapKey(t types.Type) string { return "m:" + t.Underlying().String() }

func cellKey(al *ssa.Alloc) string {
	return fmt.Sprintf("c:%s.%s", al.Parent().String(), al.Name())
}

// addrKey returns the location class written by a store to addr ("" =
// unknown, kills everything) and whether it is a local cell.
func (c *Ctx) addrKey(addr ssa.Value) string {
	if k := localKey(addr); k != "" {
		return k
	}
	switch a := addr.(type) {
	case *ssa.FieldAddr:
		return fieldKey(a)
	case *ssa.IndexAddr:
		return elemKey(a.X.Type())
	case *ssa.Alloc:
		return cellKey(a)
	case *ssa.FreeVar:
		if al := resolveFreeVar(a); al != nil {
			return cellKey(al)
		}
	case *ssa.Global:
		return "g:" + a.String()
	}
	return ""
}

func resolveFreeVar(fv *ssa.FreeVar) *ssa.Alloc {
	var cur ssa.Value = fv
	for i := 0; i < 8; i++ {
		f, ok := cur.(*ssa.FreeVar)
		if !ok {
			break
		}
		fn := f.Parent()
		par := fn.Parent()
		if par == nil {
			return nil
		}
		idx := -1
		for i, x := range fn.FreeVars {
			if x == f {
				idx = i
			}
		}
		var b ssa.Value
		ssau.ForEachInstr(par, true, func(in ssa.Instruction) {
			if mc, ok := in.(*ssa.MakeClosure); ok && mc.Fn == ssa.Value(fn) && idx >= 0 && idx < len(mc.Bindings) {
				b = mc.Bindings[idx]
			}
		})
		cur = b
	}
	al, _ := cur.(*ssa.Alloc)
	return al
}

// instrWrites returns what one instruction may write.
func (c *Ctx) instrWrites(in ssa.Instruction) *wset {
	w := &wset{}
	switch x := in.(type) {
	case *ssa.Store:
		k := c.addrKey(x.Addr)
		if k == "" {
			w.all = true
		} else {
			w.add(k)
			// a field store also changes the enclosing local struct cell, and a
			// whole-struct store changes every field of the struct
			switch a := x.Addr.(type) {
			case *ssa.FieldAddr:
				for base := a.X; ; {
					if fa, ok := base.(*ssa.FieldAddr); ok {
						w.add(fieldKey(fa))
						base = fa.X
						continue
					}
					if bk := c.addrKey(base); bk != "" {
						if _, isF := base.(*ssa.FieldAddr); !isF {
							w.add(bk)
						}
					}
					break
				}
			case *ssa.Alloc, *ssa.FreeVar, *ssa.Global, *ssa.IndexAddr:
				addStructFields(w, derefType(x.Addr.Type()), 0)
				if strings.HasPrefix(k, "L:") {
					addLocalFields(w, k, derefType(x.Addr.Type()), 0)
				}
			}
		}
	case *ssa.MapUpdate:
		w.add(mapKey(x.Map.Type()))
	case ssa.CallInstruction:
		if _, isGo := in.(*ssa.Go); isGo {
			w.all = true
			return w
		}
		cc := x.Common()
		if b, ok := cc.Value.(*ssa.Builtin); ok {
			switch b.Name() {
			case "copy":
				w.add(elemKey(cc.Args[0].Type()))
			case "delete", "clear":
				if _, ok := cc.Args[0].Type().Underlying().(*types.Map); ok {
					w.add(mapKey(cc.Args[0].Type()))
				} else {
					w.add(elemKey(cc.Args[0].Type()))
				}
			}
			return w
		}
		name := ssau.CallName(x)
		if strings.HasPrefix(name, "sort.") || strings.HasPrefix(name, "slices.Sort") {
			if len(cc.Args) > 0 {
				w.add(elemKey(ssau.Strip(cc.Args[0]).Type()))
			}
			// the comparator closure is assumed not to write (checked by C02 rules separately)
			return w
		}
		if ai, ok := argWriters[name]; ok && ai < len(cc.Args) {
			// library decoders write only through one pointer/slice argument
			tgt := ssau.Strip(cc.Args[ai])
			switch t := tgt.(type) {
			case *ssa.Alloc:
				if k := c.addrKey(t); k != "" {
					w.add(k)
					addStructFields(w, derefType(t.Type()), 0)
					return w
				}
			default:
				if _, isSlice := tgt.Type().Underlying().(*types.Slice); isSlice {
					w.add(elemKey(tgt.Type()))
					return w
				}
				if pt, isPtr := tgt.Type().Underlying().(*types.Pointer); isPtr {
					if _, isStruct := pt.Elem().Underlying().(*types.Struct); isStruct {
						addStructFields(w, pt.Elem(), 0)
						return w
					}
				}
			}
			w.all = true
			return w
		}
		if cal := cc.StaticCallee(); cal != nil {
			if c.IsRepo != nil && c.IsRepo(cal) && cal.Blocks != nil {
				w.merge(c.summary(cal))
				return w
			}
			if c.Pure != nil && c.Pure(name) {
				return w
			}
			// decoding into a pointer argument rewrites the pointee's fields
			w.all = true
			return w
		}
		if cc.IsInvoke() {
			if c.Pure != nil && c.Pure(name) {
				return w
			}
		}
		if c.Callees != nil {
			cs := c.Callees(x)
			if len(cs) > 0 {
				for _, t := range cs {
					switch {
					case c.IsRepo != nil && c.IsRepo(t) && t.Blocks != nil:
						w.merge(c.summary(t))
					case c.Pure != nil && c.Pure(ssau.FuncName(t)):
					default:
						w.all = true
					}
				}
				return w
			}
		}
		w.all = true
	}
	return w
}

func (c *Ctx) summary(fn *ssa.Function) *wset {
	if s, ok := c.sums[fn]; ok {
		return s
	}
	if c.busy[fn] {
		return &wset{all: true}
	}
	c.busy[fn] = true
	w := &wset{}
	ssau.ForEachInstr(fn, false, func(in ssa.Instruction) {
		if writesOwnAllocation(in) {
			return
		}
		iw := c.instrWrites(in)
		if iw.all {
			w.all = true
		}
		for k := range iw.keys {
			// stores to the callee's own non-escaping cells are invisible to the caller
			if strings.HasPrefix(k, "c:"+fn.String()+".") {
				continue
			}
			w.add(k)
		}
	})
	delete(c.busy, fn)
	c.sums[fn] = w
	return w
}

// MayWrite reports whether calling fn may write location class key.
func (c *Ctx) MayWrite(fn *ssa.Function, key string) bool {
	s := c.summary(fn)
	return s.all || s.keys[key]
}

// ---------------------------------------------------------------------------

// Fn is the per-function view: memory versions at every load.
type Fn struct {
	c    *Ctx
	fn   *ssa.Function
	in   []map[string]string // block entry states
	out  []map[string]string // block exit states
	ver  map[ssa.Instruction]string
	memo map[ssa.Value]string
}

// Of returns the analysed view of fn.
func (c *Ctx) Of(fn *ssa.Function) *Fn {
	if f, ok := c.fns[fn]; ok {
		return f
	}
	f := &Fn{c: c, fn: fn, ver: map[ssa.Instruction]string{}, memo: map[ssa.Value]string{}}
	c.fns[fn] = f
	f.solve()
	return f
}

func loadKey(c *Ctx, u *ssa.UnOp) string {
	if u.Op != token.MUL {
		return ""
	}
	return c.addrKey(u.X)
}

var debugJoin = os.Getenv("WTF_DEBUG_JOIN")

func (f *Fn) solve() {
	n := len(f.fn.Blocks)
	f.in = make([]map[string]string, n)
	out := make([]map[string]string, n)
	done := make([]bool, n)
	get := stateGet
	transfer := func(b *ssa.BasicBlock, in map[string]string, record bool) map[string]string {
		st := map[string]string{}
		for k, v := range in {
			st[k] = v
		}
		for i, ins := range b.Instrs {
			if record {
				switch x := ins.(type) {
				case *ssa.UnOp:
					if k := loadKey(f.c, x); k != "" {
						f.ver[ins] = get(st, k)
					} else if x.Op == token.MUL {
						f.ver[ins] = fmt.Sprintf("u%d.%d", b.Index, i)
					}
				case *ssa.Lookup:
					f.ver[ins] = get(st, mapKey(x.X.Type()))
				case *ssa.Index:
					f.ver[ins] = get(st, elemKey(x.X.Type()))
				}
			}
			st = f.step(st, b, i, ins)
		}
		return st
	}
	// reverse postorder: when a block is first visited every forward
	// predecessor has a state, so no join name is invented for a state that
	// merely was not computed yet (join names are sticky)
	var rpo []*ssa.BasicBlock
	{
		seen := make([]bool, n)
		var post []*ssa.BasicBlock
		var dfs func(b *ssa.BasicBlock)
		dfs = func(b *ssa.BasicBlock) {
			seen[b.Index] = true
			for _, sc := range b.Succs {
				if !seen[sc.Index] {
					dfs(sc)
				}
			}
			post = append(post, b)
		}
		if n > 0 {
			dfs(f.fn.Blocks[0])
		}
		for i := len(post) - 1; i >= 0; i-- {
			rpo = append(rpo, post[i])
		}
		for _, b := range f.fn.Blocks {
			if !seen[b.Index] {
				rpo = append(rpo, b) // unreachable (e.g. recover blocks)
			}
		}
	}
	for iter := 0; iter < 50; iter++ {
		changed := false
		for _, b := range rpo {
			var st map[string]string
			if b.Index == 0 {
				st = map[string]string{}
			} else {
				keys := map[string]bool{}
				var ps []map[string]string
				for _, p := range b.Preds {
					if done[p.Index] {
						ps = append(ps, out[p.Index])
						for k := range out[p.Index] {
							keys[k] = true
						}
					}
				}
				st = map[string]string{}
				// "*" (the default after an unknown write) is joined like any other key
				self := fmt.Sprintf("b%d", b.Index)
				for k := range keys {
					// phi(x, self) = x: a value that went round the loop
					// unchanged is the value at the loop's entry
					v0, same, any := "", true, false
					for _, p := range ps {
						v := get(p, k)
						if v == self {
							continue
						}
						if !any {
							v0, any = v, true
						} else if v != v0 {
							same = false
						}
					}
					if !any {
						v0 = self
					}
					if same {
						st[k] = v0
					} else {
						st[k] = fmt.Sprintf("b%d", b.Index)
						if debugJoin != "" && strings.HasSuffix(k, debugJoin) {
							fmt.Printf("JOIN %s at b%d iter %d:", k, b.Index, iter)
							for _, p := range ps {
								fmt.Printf(" %s", get(p, k))
							}
							fmt.Println()
						}
					}
				}
			}
			o := transfer(b, st, false)
			if debugJoin != "" {
				for k := range o {
					if strings.HasSuffix(k, debugJoin) {
						fmt.Printf("  iter %d b%d in=%s out=%s\n", iter, b.Index, get(st, k), get(o, k))
					}
				}
			}
			if !done[b.Index] || !eq(o, out[b.Index]) || !eq(st, f.in[b.Index]) {
				changed = true
			}
			f.in[b.Index] = st
			out[b.Index] = o
			done[b.Index] = true
		}
		if !changed {
			break
		}
	}
	for _, b := range f.fn.Blocks {
		transfer(b, f.in[b.Index], true)
	}
	f.out = out
}

// step applies the memory effect of instruction #i of block b to state st
// (st may be replaced when an unknown write resets it).
func (f *Fn) step(st map[string]string, b *ssa.BasicBlock, i int, ins ssa.Instruction) map[string]string {
	w := f.c.instrWrites(ins)
	id := fmt.Sprintf("i%d.%d", b.Index, i)
	if w.all {
		ns := map[string]string{"*": id}
		for k, v := range st {
			if strings.HasPrefix(k, "L:") {
				ns[k] = v
			}
		}
		return ns
	}
	// a field store names its enclosing cells among the written keys: their
	// versions change, their other fields do not
	primary := ""
	if sto, ok := ins.(*ssa.Store); ok {
		if _, isField := sto.Addr.(*ssa.FieldAddr); isField {
			primary = f.c.addrKey(sto.Addr)
		}
	}
	for k := range w.keys {
		st[k] = id
		if strings.HasPrefix(k, "L:") {
			// children of the written location and its enclosing cells change too
			if primary == "" || k == primary {
				for k2 := range st {
					if strings.HasPrefix(k2, k+".") {
						st[k2] = id
					}
				}
			}
			for p := k; ; {
				i := strings.LastIndex(p, ".")
				if i < 0 || !strings.Contains(p[:i], ".") {
					break
				}
				p = p[:i]
				st[p] = id
			}
		}
	}
	return st
}

// VersionBefore is the version of location class key just before instruction
// ins executes.
func (f *Fn) VersionBefore(ins ssa.Instruction, key string) string {
	b := ins.Block()
	st := map[string]string{}
	for k, v := range f.in[b.Index] {
		st[k] = v
	}
	for i, x := range b.Instrs {
		if x == ins {
			break
		}
		st = f.step(st, b, i, x)
	}
	return stateGet(st, key)
}

func stateGet(m map[string]string, k string) string {
	if v, ok := m[k]; ok {
		return v
	}
	if strings.HasPrefix(k, "L:") {
		// a field of a local cell: fall back to the enclosing cell's version
		for p := k; ; {
			i := strings.LastIndex(p, ".")
			if i < 0 || !strings.Contains(p[:i], ".") {
				break
			}
			p = p[:i]
			if v, ok := m[p]; ok {
				return v
			}
		}
		return "0"
	}
	if v, ok := m["*"]; ok {
		return v
	}
	return "0"
}

// DebugState renders the entry and exit states of block b (debug aid).
func (f *Fn) DebugState(b *ssa.BasicBlock) string {
	r := func(m map[string]string) string {
		var ks []string
		for k := range m {
			ks = append(ks, k)
		}
		sort.Strings(ks)
		var sb strings.Builder
		for _, k := range ks {
			sb.WriteString(" " + k[strings.LastIndex(k, ")")+1:] + "=" + m[k])
		}
		return sb.String()
	}
	return "in:" + r(f.in[b.Index]) + " | out:" + r(f.out[b.Index])
}

// OutVersion is the version of location class key at the end of block b.
func (f *Fn) OutVersion(b *ssa.BasicBlock, key string) string { return stateGet(f.out[b.Index], key) }

// InVersion is the version of location class key at the start of block b.
func (f *Fn) InVersion(b *ssa.BasicBlock, key string) string { return stateGet(f.in[b.Index], key) }

// InstrByID resolves a version id of the form "i<block>.<index>" to the
// writing instruction (nil for entry, join and unknown versions).
func (f *Fn) InstrByID(id string) ssa.Instruction {
	var bi, ii int
	if n, _ := fmt.Sscanf(id, "i%d.%d", &bi, &ii); n != 2 {
		return nil
	}
	if bi < 0 || bi >= len(f.fn.Blocks) || ii < 0 || ii >= len(f.fn.Blocks[bi].Instrs) {
		return nil
	}
	return f.fn.Blocks[bi].Instrs[ii]
}

// JoinBlock resolves a join version "b<k>" to its block.
func (f *Fn) JoinBlock(id string) *ssa.BasicBlock {
	var bi int
	if n, _ := fmt.Sscanf(id, "b%d", &bi); n != 1 || !strings.HasPrefix(id, "b") {
		return nil
	}
	if bi < 0 || bi >= len(f.fn.Blocks) {
		return nil
	}
	return f.fn.Blocks[bi]
}

// LoadKey returns the location class read by a load ("" if v is not a load
// of a tracked location) and the unversioned rendering of the location.
func (f *Fn) LoadKey(v ssa.Value) (key, plain string) {
	u, ok := v.(*ssa.UnOp)
	if !ok || u.Op != token.MUL {
		return "", ""
	}
	k := f.c.addrKey(u.X)
	if k == "" {
		return "", ""
	}
	return k, f.locString(u.X)
}

// locString renders the location an address denotes with versions on the
// inner loads only (the outermost version is appended by the caller).
func (f *Fn) locString(addr ssa.Value) string {
	switch a := addr.(type) {
	case *ssa.FieldAddr:
		return f.base(a.X, true, 0) + "." + ssau.FieldName(a)
	case *ssa.IndexAddr:
		return f.expr(a.X, true, 1) + "[" + f.expr(a.Index, true, 1) + "]"
	case *ssa.Alloc:
		return allocName(a)
	case *ssa.FreeVar:
		return a.Name()
	case *ssa.Global:
		return a.Pkg.Pkg.Name() + "." + a.Name()
	}
	return "*(" + f.expr(addr, true, 1) + ")"
}

// StoredValue returns the value written by a store-like instruction.
func StoredValue(in ssa.Instruction) ssa.Value {
	if st, ok := in.(*ssa.Store); ok {
		return st.Val
	}
	return nil
}

// Func returns the analysed function.
func (f *Fn) Func() *ssa.Function { return f.fn }

func eq(a, b map[string]string) bool {
	if len(a) != len(b) {
		return false
	}
	for k, v := range a {
		if b[k] != v {
			return false
		}
	}
	return true
}

// Version returns the memory version observed by a load instruction.
func (f *Fn) Version(in ssa.Instruction) string { return f.ver[in] }

// E renders v canonically, with memory versions.
func (f *Fn) E(v ssa.Value) string { return f.expr(v, true, 0) }

// Plain renders v without versions (for messages and for shape matching when
// the rule separately establishes that no write intervenes).
func (f *Fn) Plain(v ssa.Value) string { return f.expr(v, false, 0) }

func (f *Fn) expr(v ssa.Value, ver bool, d int) string {
	if v == nil {
		return "<nil>"
	}
	if d > 40 {
		return "…"
	}
	at := func(in ssa.Instruction) string {
		if !ver {
			return ""
		}
		return "@" + f.ver[in]
	}
	switch x := v.(type) {
	case *ssa.Const:
		if x.Value == nil {
			return "nil"
		}
		if x.Value.Kind() == constant.Float {
			fl, _ := constant.Float64Val(x.Value)
			return fmt.Sprintf("%g", fl)
		}
		return x.Value.ExactString()
	case *ssa.Parameter:
		return x.Name()
	case *ssa.FreeVar:
		return "&" + x.Name()
	case *ssa.Global:
		return "&" + x.Pkg.Pkg.Name() + "." + x.Name()
	case *ssa.Function:
		return x.Name()
	case *ssa.Builtin:
		return x.Name()
	case *ssa.Alloc:
		return "&" + allocName(x)
	case *ssa.FieldAddr:
		return "&" + f.base(x.X, ver, d) + "." + ssau.FieldName(x)
	case *ssa.IndexAddr:
		return "&" + f.expr(x.X, ver, d+1) + "[" + f.expr(x.Index, ver, d+1) + "]"
	case *ssa.UnOp:
		if x.Op == token.MUL {
			switch a := x.X.(type) {
			case *ssa.FieldAddr:
				return f.base(a.X, ver, d) + "." + ssau.FieldName(a) + at(x)
			case *ssa.IndexAddr:
				return f.expr(a.X, ver, d+1) + "[" + f.expr(a.Index, ver, d+1) + "]" + at(x)
			case *ssa.Alloc:
				if ver && d < 30 {
					if _, isStruct := derefType(a.Type()).Underlying().(*types.Struct); !isStruct {
						if vals, ok := f.ReachingStores(x); ok && len(vals) == 1 {
							return f.expr(vals[0], ver, d+1)
						}
					}
				}
				return allocName(a) + at(x)
			case *ssa.FreeVar:
				return a.Name() + at(x)
			case *ssa.Global:
				return a.Pkg.Pkg.Name() + "." + a.Name() + at(x)
			}
			return "*(" + f.expr(x.X, ver, d+1) + ")" + at(x)
		}
		return x.Op.String() + f.expr(x.X, ver, d+1)
	case *ssa.BinOp:
		return "(" + f.expr(x.X, ver, d+1) + " " + x.Op.String() + " " + f.expr(x.Y, ver, d+1) + ")"
	case *ssa.Field:
		st, _ := x.X.Type().Underlying().(*types.Struct)
		name := fmt.Sprintf("#%d", x.Field)
		if st != nil {
			name = st.Field(x.Field).Name()
		}
		return f.expr(x.X, ver, d+1) + "." + name
	case *ssa.Call:
		return f.call(x, ver, d)
	case *ssa.Extract:
		return f.expr(x.Tuple, ver, d+1) + fmt.Sprintf("#%d", x.Index)
	case *ssa.Slice:
		if al, ok := x.X.(*ssa.Alloc); ok && x.Low == nil && x.High == nil && (al.Comment == "varargs" || al.Comment == "slicelit") {
			// a slice literal / variadic argument list: render its elements
			type el struct {
				i int64
				s string
			}
			var els []el
			okAll := true
			for _, ref := range *al.Referrers() {
				ia, ok := ref.(*ssa.IndexAddr)
				if !ok {
					continue
				}
				i, isc := ssau.ConstInt(ia.Index)
				if !isc {
					okAll = false
					continue
				}
				for _, r2 := range *ia.Referrers() {
					if st, ok := r2.(*ssa.Store); ok && st.Addr == ssa.Value(ia) {
						els = append(els, el{i, f.expr(st.Val, ver, d+2)})
					}
				}
			}
			if okAll {
				sort.Slice(els, func(a, b int) bool { return els[a].i < els[b].i })
				var parts []string
				for _, e := range els {
					parts = append(parts, e.s)
				}
				return "[" + strings.Join(parts, ", ") + "]"
			}
		}
		s := f.expr(x.X, ver, d+1) + "["
		if x.Low != nil {
			s += f.expr(x.Low, ver, d+1)
		}
		s += ":"
		if x.High != nil {
			s += f.expr(x.High, ver, d+1)
		}
		if x.Max != nil {
			s += ":" + f.expr(x.Max, ver, d+1)
		}
		return s + "]"
	case *ssa.Convert:
		return shortType(x.Type()) + "(" + f.expr(x.X, ver, d+1) + ")"
	case *ssa.ChangeType:
		return f.expr(x.X, ver, d+1)
	case *ssa.MakeInterface:
		return f.expr(x.X, ver, d+1)
	case *ssa.ChangeInterface:
		return f.expr(x.X, ver, d+1)
	case *ssa.TypeAssert:
		return f.expr(x.X, ver, d+1) + ".(" + shortType(x.AssertedType) + ")"
	case *ssa.Lookup:
		s := f.expr(x.X, ver, d+1) + "[" + f.expr(x.Index, ver, d+1) + "]" + at(x)
		return s
	case *ssa.Index:
		return f.expr(x.X, ver, d+1) + "[" + f.expr(x.Index, ver, d+1) + "]" + at(x)
	case *ssa.Phi:
		// phis whose inputs are all leaves (constants, parameters, loads) are
		// rendered structurally (sorted); others by identity
		var parts []string
		for _, e := range x.Edges {
			switch y := e.(type) {
			case *ssa.Const, *ssa.Parameter:
			case *ssa.UnOp:
				if y.Op != token.MUL {
					return fmt.Sprintf("phi:%s", x.Name())
				}
				switch y.X.(type) {
				case *ssa.FieldAddr, *ssa.Alloc, *ssa.FreeVar, *ssa.Global:
				default:
					return fmt.Sprintf("phi:%s", x.Name())
				}
			default:
				return fmt.Sprintf("phi:%s", x.Name())
			}
			parts = append(parts, f.expr(e, ver, d+5))
		}
		sort.Strings(parts)
		return fmt.Sprintf("phi:%s(%s)", x.Name(), strings.Join(parts, "|"))
	case *ssa.MakeSlice:
		return fmt.Sprintf("make:%s(%s)", x.Name(), f.expr(x.Len, ver, d+1))
	case *ssa.MakeMap:
		return "makemap:" + x.Name()
	case *ssa.MakeClosure:
		return "closure:" + x.Fn.Name()
	case *ssa.Next:
		return "next:" + x.Name()
	case *ssa.Range:
		return "range(" + f.expr(x.X, ver, d+1) + ")"
	}
	return fmt.Sprintf("%s:%T", v.Name(), v)
}

func allocName(a *ssa.Alloc) string {
	if a.Comment != "" && !strings.ContainsAny(a.Comment, " ()") {
		return a.Comment
	}
	return a.Name()
}

// base renders the object a field is selected from: a pointer parameter "sh"
// prints as "sh", a loaded pointer as its expression.
func (f *Fn) base(v ssa.Value, ver bool, d int) string {
	switch x := v.(type) {
	case *ssa.Alloc:
		return allocName(x)
	case *ssa.FieldAddr:
		return f.base(x.X, ver, d+1) + "." + ssau.FieldName(x)
	case *ssa.IndexAddr:
		return f.expr(x.X, ver, d+1) + "[" + f.expr(x.Index, ver, d+1) + "]"
	}
	return f.expr(v, ver, d+1)
}

func (f *Fn) call(x *ssa.Call, ver bool, d int) string {
	cc := x.Common()
	name := ssau.CallName(x)
	var args []string
	if cc.IsInvoke() {
		args = append(args, f.expr(cc.Value, ver, d+1))
	}
	for _, a := range cc.Args {
		args = append(args, f.expr(a, ver, d+1))
	}
	short := name
	if i := strings.LastIndex(short, "/"); i >= 0 {
		short = short[i+1:]
	}
	short = strings.TrimPrefix(short, "builtin.")
	if name == "" {
		short = "dyn(" + f.expr(cc.Value, ver, d+1) + ")"
	}
	s := short + "(" + strings.Join(args, ", ") + ")"
	pure := false
	if b, ok := cc.Value.(*ssa.Builtin); ok {
		switch b.Name() {
		case "len", "cap", "min", "max":
			pure = true
		}
	}
	if DeterministicCallee(name) {
		pure = true
	}
	if !pure && ver {
		s += "@" + x.Name()
	}
	return s
}

// DeterministicCallee lists callees whose result is a function of their
// arguments' values alone (no clock, no hidden state), so that two calls with
// identical (versioned) arguments denote the same value.
func DeterministicCallee(name string) bool {
	for _, p := range []string{"strings.", "unicode.", "math.", "strconv.", "path/filepath.Dir", "path/filepath.Base", "path/filepath.Join", "path/filepath.Clean", "(time.Duration).", "github.com/Vedant9500/WTF/internal/utils.Min", "github.com/Vedant9500/WTF/internal/utils.Max"} {
		if strings.HasPrefix(name, p) {
			return true
		}
	}
	return false
}

func shortType(t types.Type) string {
	s := t.String()
	if i := strings.LastIndex(s, "/"); i >= 0 {
		// keep leading [] * etc.
		pre := ""
		for len(s) > 0 && (s[0] == '*' || s[0] == '[' || s[0] == ']') {
			pre += s[:1]
			s = s[1:]
		}
		if j := strings.LastIndex(s, "/"); j >= 0 {
			s = s[j+1:]
		}
		return pre + s
	}
	return s
}

// LoadKeyOfAddr returns the location class and rendering of an address.
func (f *Fn) LoadKeyOfAddr(addr ssa.Value) (key, plain string) {
	k := f.c.addrKey(addr)
	if k == "" {
		return "", ""
	}
	return k, f.locString(addr)
}

// CallWrites reports what a call instruction may write: everything (all), or
// the listed location classes (sorted).
func (c *Ctx) CallWrites(call ssa.CallInstruction) (all bool, keys []string) {
	w := c.instrWrites(call)
	for k := range w.keys {
		keys = append(keys, k)
	}
	sort.Strings(keys)
	return w.all, keys
}

// writesOwnAllocation: the instruction stores into an object allocated by the
// same function activation (composite literal, make, new). Such a write cannot
// change anything a caller loaded before the call.
func writesOwnAllocation(in ssa.Instruction) bool {
	var addr ssa.Value
	switch x := in.(type) {
	case *ssa.Store:
		addr = x.Addr
	case *ssa.MapUpdate:
		addr = x.Map
	default:
		return false
	}
	for i := 0; i < 12; i++ {
		switch a := addr.(type) {
		case *ssa.Alloc:
			return true
		case *ssa.MakeSlice, *ssa.MakeMap:
			return true
		case *ssa.FieldAddr:
			addr = a.X
		case *ssa.IndexAddr:
			addr = a.X
		case *ssa.Slice:
			addr = a.X
		default:
			return false
		}
	}
	return false
}

// argWriters lists library functions that write only through the given
// argument (a pointer or slice).
var argWriters = map[string]int{
	"encoding/binary.Read":       2,
	"encoding/json.Unmarshal":    1,
	"gopkg.in/yaml.v3.Unmarshal": 1,
	"io.ReadFull":                1,
}

func derefType(t types.Type) types.Type {
	if p, ok := t.Underlying().(*types.Pointer); ok {
		return p.Elem()
	}
	return t
}

// addStructFields adds the field location classes of struct type t (nested
// struct fields included) to w.
func addStructFields(w *wset, t types.Type, depth int) {
	st, ok := t.Underlying().(*types.Struct)
	if !ok || depth > 3 {
		return
	}
	owner := ssau.NamedOf(t)
	for i := 0; i < st.NumFields(); i++ {
		w.add("f:" + owner + "." + st.Field(i).Name())
		addStructFields(w, st.Field(i).Type(), depth+1)
	}
}

// ---------------------------------------------------------------------------
// non-escaping local cells

var escCache = map[*ssa.Alloc]bool{}

// nonEscaping reports whether the address of a local cell is used only for
// direct loads, stores and field/element selection in its own function: no
// call, closure or store can then reach it, so only stores written in the
// function itself change it.
func nonEscaping(al *ssa.Alloc) bool {
	if v, ok := escCache[al]; ok {
		return v
	}
	ok := true
	var visit func(addr ssa.Value, d int)
	visit = func(addr ssa.Value, d int) {
		refs := addr.Referrers()
		if refs == nil || d > 6 {
			ok = false
			return
		}
		for _, ref := range *refs {
			switch u := ref.(type) {
			case *ssa.UnOp:
				if u.Op != token.MUL {
					ok = false
				}
			case *ssa.Store:
				if u.Addr != addr {
					ok = false
				}
			case *ssa.FieldAddr:
				if u.X == addr {
					visit(u, d+1)
				} else {
					ok = false
				}
			case *ssa.IndexAddr:
				if _, isArr := derefType(addr.Type()).Underlying().(*types.Array); isArr && u.X == addr {
					visit(u, d+1)
				} else {
					ok = false
				}
			case *ssa.DebugRef:
			case *ssa.MakeClosure:
				// captured by a closure: fine if the closure (and the closures it
				// creates) only ever load from the captured variable
				fn, isFn := u.Fn.(*ssa.Function)
				if !isFn {
					ok = false
					break
				}
				for i, b := range u.Bindings {
					if b == addr {
						if i >= len(fn.FreeVars) || !readOnlyFreeVar(fn.FreeVars[i], 0) {
							ok = false
						}
					}
				}
			default:
				ok = false
			}
		}
	}
	visit(al, 0)
	escCache[al] = ok
	return ok
}

// localKey returns the cell-specific location class of an address rooted at a
// non-escaping local cell: "L:<cell>" or "L:<cell>.<field path>"; "" otherwise.
func localKey(addr ssa.Value) string {
	path := ""
	for i := 0; i < 8; i++ {
		switch a := addr.(type) {
		case *ssa.FreeVar:
			al := resolveFreeVar(a)
			if al == nil {
				return ""
			}
			addr = al
		case *ssa.Alloc:
			if !nonEscaping(a) {
				return ""
			}
			return "L:" + a.Parent().String() + "." + a.Name() + path
		case *ssa.FieldAddr:
			path = "." + ssau.FieldName(a) + path
			addr = a.X
		default:
			return ""
		}
	}
	return ""
}

// CellField names field path of the non-escaping local struct cell al: the
// location class key and the unversioned location rendering ("" if the cell
// escapes).
func CellField(al *ssa.Alloc, path string) (key, loc string) {
	if !nonEscaping(al) {
		return "", ""
	}
	return "L:" + al.Parent().String() + "." + al.Name() + "." + path, allocName(al) + "." + path
}

// Cell names the non-escaping local cell al itself (see CellField).
func Cell(al *ssa.Alloc) (key, loc string) {
	if !nonEscaping(al) {
		return "", ""
	}
	return "L:" + al.Parent().String() + "." + al.Name(), allocName(al)
}

// ReachingStores enumerates the values written by the stores that can reach
// the load u, when every reaching definition is a store in this function to
// exactly the loaded location (ok == false otherwise: the location may have
// been written by a call, or holds its entry value).
func (f *Fn) ReachingStores(u *ssa.UnOp) (vals []ssa.Value, ok bool) {
	key, loc := f.LoadKey(u)
	if key == "" {
		return nil, false
	}
	seen := map[string]bool{}
	var resolve func(ver string) bool
	resolve = func(ver string) bool {
		if seen[ver] {
			return true
		}
		seen[ver] = true
		if in := f.InstrByID(ver); in != nil {
			st, isSt := in.(*ssa.Store)
			if !isSt {
				return false
			}
			if _, l2 := f.LoadKeyOfAddr(st.Addr); l2 != loc {
				return false
			}
			vals = append(vals, st.Val)
			return true
		}
		if jb := f.JoinBlock(ver); jb != nil {
			for _, p := range jb.Preds {
				if !resolve(f.OutVersion(p, key)) {
					return false
				}
			}
			return true
		}
		return false
	}
	if !resolve(f.Version(u)) {
		return nil, false
	}
	return vals, len(vals) > 0
}

// readOnlyFreeVar: the captured variable is only loaded (possibly by nested
// closures), never stored to or passed on.
func readOnlyFreeVar(fv *ssa.FreeVar, d int) bool {
	if d > 4 || fv.Referrers() == nil {
		return false
	}
	for _, ref := range *fv.Referrers() {
		switch u := ref.(type) {
		case *ssa.UnOp:
			if u.Op != token.MUL {
				return false
			}
		case *ssa.DebugRef:
		case *ssa.FieldAddr:
			// a field of the captured struct: only loaded from
			if u.X != ssa.Value(fv) || u.Referrers() == nil {
				return false
			}
			for _, r2 := range *u.Referrers() {
				switch l := r2.(type) {
				case *ssa.UnOp:
					if l.Op != token.MUL {
						return false
					}
				case *ssa.DebugRef:
				default:
					return false
				}
			}
		case *ssa.MakeClosure:
			fn, ok := u.Fn.(*ssa.Function)
			if !ok {
				return false
			}
			for i, b := range u.Bindings {
				if b == ssa.Value(fv) && (i >= len(fn.FreeVars) || !readOnlyFreeVar(fn.FreeVars[i], d+1)) {
					return false
				}
			}
		default:
			return false
		}
	}
	return true
}

// addLocalFields gives every field of a local struct cell its own version on
// a whole-struct store, so that later writes to sibling fields leave it alone.
func addLocalFields(w *wset, prefix string, t types.Type, depth int) {
	st, ok := t.Underlying().(*types.Struct)
	if !ok || depth > 2 {
		return
	}
	for i := 0; i < st.NumFields(); i++ {
		k := prefix + "." + st.Field(i).Name()
		w.add(k)
		addLocalFields(w, k, st.Field(i).Type(), depth+1)
	}
}

// Ctx returns the analysis context f belongs to (for views of other functions).
func (f *Fn) Ctx() *Ctx { return f.c }
