#!/bin/bash
# usage: ./check.sh <property-id> <quick|thorough> [extra wtfcheck flags]
# Runs the static analysis for one property against /repo's current working tree.
set -u
cd "$(dirname "$0")"
. ./env.sh
if [ ! -x bin/wtfcheck ] || [ -n "$(find checker -name '*.go' -newer bin/wtfcheck 2>/dev/null | head -1)" ]; then
  (cd checker && go build -o ../bin/wtfcheck ./cmd/wtfcheck) || { echo "VIOLATION property=$1 replay=/verif/evidence/replay/$1-build-failure.json"; exit 1; }
fi
prop=$1; tier=${2:-quick}; shift; shift || true
exec bin/wtfcheck -prop "$prop" -tier "$tier" -repo "${WTF_REPO:-/repo}" -verif "$(pwd)" "$@"
