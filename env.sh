# Sourced by every command registered in MANIFEST.json.
# Toolchain: go1.26.8 (pre-installed) for the checker and as the `go` that go/packages invokes on /repo.
export PATH=/opt/veriftools/go1.26.8/bin:$PATH
export GOTOOLCHAIN=local GOFLAGS=-mod=mod GOPROXY=off GOSUMDB=off GOWORK=off CGO_ENABLED=0
