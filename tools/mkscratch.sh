#!/bin/bash
# usage: tools/mkscratch.sh <patch> -> prints scratch dir (copy of /repo with patch applied); caller removes it
T=$(mktemp -d /tmp/wtfscr.XXXXXX); mkdir -p $T/repo $T/verif; rsync -a --exclude .git /repo/ $T/repo/; cp /verif/known_findings.json $T/verif/
P=$(readlink -f "$1"); (cd $T/repo && patch -p1 -s < "$P") || { echo PATCHFAIL; exit 1; }
echo $T
