#!/usr/bin/env python3
"""usage: tools/claim.py <id> <technique> <design_ref> <<< 'text\n---\nnote'   -- moves a property from not_applicable to checks"""
import json,sys
i,tech,ref=sys.argv[1:4]
text,note=[x.strip() for x in sys.stdin.read().split('\n---\n')]
m=json.load(open('/verif/MANIFEST.json'))
m['not_applicable']=[x for x in m['not_applicable'] if x['property_id']!=i]
m['checks']=[x for x in m['checks'] if x['property_id']!=i]
m['checks'].append({"property_id":i,"quick_cmd":f"./check.sh {i} quick","thorough_cmd":f"./check.sh {i} thorough","evidence_file":f"/verif/evidence/{i}.json","replay_cmd_template":f"./check.sh {i} quick -only '{{path}}'","engine":"wtfcheck","level_claimed":{"category":"other","text":text,"design_ref":ref},"level_note":note,"technique":tech})
m['checks'].sort(key=lambda c:c['property_id'])
m['engines'][0]['serves_properties']=[c['property_id'] for c in m['checks']]
json.dump(m,open('/verif/MANIFEST.json','w'),indent=1)
