#!/usr/bin/env python3
"""usage: tools/harvest_round2.py <group-dir> [offset]
Verifies seeded changes under <group-dir>/out/<PROP>-<k>/ against a scratch copy of /repo
(apply -> build -> suite passes -> demo fails; clean + demo -> passes) and installs the confirmed
ones as /verif/seeded/<PROP>-<k+offset>/ (offset defaults to 3)."""
import sys,os,re,subprocess,json,shutil,tempfile,glob
g=sys.argv[1].rstrip('/'); off=int(sys.argv[2]) if len(sys.argv)>2 else 3
ENV=dict(os.environ,GOFLAGS='-mod=mod',GOPROXY='off'); ENV.pop('GOTOOLCHAIN',None); ENV.pop('GOSUMDB',None)
def sh(cmd,cwd,timeout=1200):
    p=subprocess.run(cmd,shell=True,cwd=cwd,env=ENV,capture_output=True,text=True,timeout=timeout)
    return p.returncode,(p.stdout+p.stderr)
def parse(d):
    t=open(d+'/demo_path.txt').read()
    files=[]
    for m in re.finditer(r'(\S+_test\.go)\s*->\s*(\S+_test\.go)',t): files.append((m.group(1),m.group(2)))
    for m in re.finditer(r'copy\s+(\S+_test\.go)\s+to\s+(\S+_test\.go)',t): files.append((m.group(1),m.group(2)))
    m=re.search(r'go test ([^\n(]*)',t)
    run='go test '+m.group(1).strip()
    return files,run
for d in sorted(glob.glob(g+'/out/C*-*')):
    name=os.path.basename(d); prop,k=name.split('-'); k=int(k)+off
    if not os.path.exists(d+'/patch.diff'): print(name,'no patch'); continue
    files,run=parse(d)
    T=tempfile.mkdtemp(prefix='seedchk.')
    try:
        subprocess.check_call(['rsync','-a','--exclude','.git','/repo/',T+'/'])
        res={}
        rc,out=sh(f'git apply --check {d}/patch.diff && git apply {d}/patch.diff',T); res['applies']=rc==0
        if rc!=0: print(name,'PATCH DOES NOT APPLY',out[:300]); continue
        rc,out=sh('go build ./...',T); res['builds']=rc==0
        rc,out=sh('go test -vet=off -count=1 ./...',T); res['suite_passes_with_change']=rc==0
        if rc!=0: print(name,'SUITE FAILS',out[-500:])
        for s,dst in files: shutil.copy(d+'/'+s,T+'/'+dst)
        rc,out=sh(run,T); res['demo_fails_with_change']=rc!=0; fail_tail=out[-600:]
        sh(f'git apply -R {d}/patch.diff',T)
        rc,out=sh(run,T); res['demo_passes_without_change']=rc==0
        if rc!=0: print(name,'DEMO FAILS ON CLEAN',out[-400:])
        ok=all(res.values())
        print(name,'->',f'{prop}-{k}','CONFIRMED' if ok else 'REJECTED',res,flush=True)
        if ok:
            dst=f'/verif/seeded/{prop}-{k}'
            os.makedirs(dst,exist_ok=True)
            shutil.copy(d+'/patch.diff',dst+'/patch.diff')
            for s,dd in files:
                os.makedirs(os.path.dirname(dst+'/demo/'+dd),exist_ok=True); shutil.copy(d+'/'+s,dst+'/demo/'+dd)
            notes=open(d+'/notes.md').read() if os.path.exists(d+'/notes.md') else ''
            base=subprocess.check_output(['git','-C','/repo','rev-parse','--short','HEAD'],text=True).strip()
            json.dump({'property':prop,'seed':f'{prop}-{k}','round':2,'source':'independent sub-agent given only property texts and a scratch worktree',
               'needs_to_manifest':notes[:1500],'demo_files':[dd for _,dd in files],'demo_cmd':run,
               'verified_against_repo_commit':base,'verification':res,'what_i_ran':'tools/harvest_round2.py: scratch copy of /repo; git apply; go build ./...; go test -vet=off -count=1 ./... (passes); demo (fails); git apply -R; demo (passes)',
               'demo_failure_tail':fail_tail},open(dst+'/meta.json','w'),indent=1)
    finally:
        shutil.rmtree(T,ignore_errors=True)
