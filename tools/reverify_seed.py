#!/usr/bin/env python3
"""usage: tools/reverify_seed.py <seed-id> [new-patch]   |   tools/reverify_seed.py --all
Re-verifies a stored seeded change against a scratch copy of /repo's current tree: the patch applies,
builds, the full suite passes with it, its demo fails with it and passes without. With new-patch (a
rebased version of the stored patch) the stored patch is replaced when everything is confirmed."""
import sys,os,subprocess,json,shutil,tempfile
ENV=dict(os.environ,GOFLAGS='-mod=mod',GOPROXY='off'); ENV.pop('GOTOOLCHAIN',None); ENV.pop('GOSUMDB',None); ENV.pop('GOWORK',None)
def sh(cmd,cwd,timeout=900):
    p=subprocess.run(cmd,shell=True,cwd=cwd,env=ENV,capture_output=True,text=True,timeout=timeout)
    return p.returncode,(p.stdout+p.stderr)
def verify(sid,newpatch=None):
    d=f'/verif/seeded/{sid}'
    meta=json.load(open(d+'/meta.json'))
    patch=os.path.abspath(newpatch) if newpatch else d+'/patch.diff'
    T=tempfile.mkdtemp(prefix='seedchk.')
    try:
        subprocess.check_call(['rsync','-a','--exclude','.git','/repo/',T+'/'])
        res={}
        rc,out=sh(f'patch -p1 -s -f --dry-run < {patch} && patch -p1 -s -f < {patch}',T); res['applies']=rc==0
        if rc!=0: return False,res,out[-300:]
        rc,out=sh('go build ./...',T); res['builds']=rc==0
        if rc!=0: return False,res,out[-400:]
        rc,out=sh('go test -vet=off -count=1 ./...',T); res['suite_passes_with_change']=rc==0
        suite_tail=out[-400:]
        for f in meta['demo_files']:
            os.makedirs(os.path.dirname(T+'/'+f),exist_ok=True); shutil.copy(d+'/demo/'+f,T+'/'+f)
        rc,out=sh(meta['demo_cmd'],T); res['demo_fails_with_change']=rc!=0; tail=out[-400:]
        sh(f'patch -p1 -s -f -R < {patch}',T)
        rc,out=sh(meta['demo_cmd'],T); res['demo_passes_without_change']=rc==0
        ok=all(res.values())
        if ok:
            base=subprocess.check_output(['git','-C','/repo','rev-parse','--short','HEAD'],text=True).strip()
            meta['verified_against_repo_commit']=base; meta['verification']=res
            if newpatch:
                shutil.copy(patch,d+'/patch.diff')
                meta['rebased']=meta.get('rebased','')+f' | re-applied on {base} after repository fixes touched the same lines (three-way merge; the seeded edit itself is unchanged); build, suite and demo re-verified'
            json.dump(meta,open(d+'/meta.json','w'),indent=1)
        return ok,res,(tail if not res.get('demo_fails_with_change') else suite_tail if not res.get('suite_passes_with_change') else out[-300:])
    finally:
        shutil.rmtree(T,ignore_errors=True)
if sys.argv[1]=='--all':
    bad=0
    for sid in sorted(os.listdir('/verif/seeded')):
        ok,res,tail=verify(sid)
        print(sid,'CONFIRMED' if ok else 'NOT-CONFIRMED',{k:v for k,v in res.items() if not v} or '')
        bad+=not ok
    sys.exit(1 if bad else 0)
ok,res,tail=verify(sys.argv[1],sys.argv[2] if len(sys.argv)>2 else None)
print(sys.argv[1],'CONFIRMED' if ok else 'NOT-CONFIRMED',res); 
if not ok: print(tail)
