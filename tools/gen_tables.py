#!/usr/bin/env python3
"""Generates the as-built appendices of DESIGN.md from what the checker itself reports:
  - the rule catalogue (rule texts, obligation counts, what is not decided, trusted base) from evidence/<id>.json
  - the seeded-change table (which obligation of which check fires on which stored change) from the
    self_validation section of thorough-tier evidence
Prints markdown to stdout."""
import json,os,glob
props=[json.loads(l) for l in open('/verif/properties.jsonl')]
man=json.load(open('/verif/MANIFEST.json'))
claimed={c['property_id'] for c in man['checks']}
print('### A.1 Rule catalogue (generated from the evidence files of the last run)\n')
for p in props:
    pid=p['id']
    f=f'/verif/evidence/{pid}.json'
    if pid not in claimed or not os.path.exists(f): continue
    e=json.load(open(f)); c=e['coverage']
    print(f"**{pid} — {p['title']}** ({c['obligations']} obligations, {c['discharged']} discharged, tier {e['tier']})\n")
    for r,t in sorted(c['rules'].items(), key=lambda kv:(len(kv[0]),kv[0])):
        print(f"- {r} ({c['obligations_per_rule'].get(r,0)}): {t}")
    if c.get('not_decided'): print(f"- *not decided:* "+'; '.join(c['not_decided']))
    print()
print('### A.2 Stored variants and the obligations they trip (generated from thorough-tier self-validation)\n')
print('| variant | kind | expected | status | first obligation fired |')
print('|---|---|---|---|---|')
for p in props:
    pid=p['id']
    f=f'/verif/evidence/{pid}.json'
    if not os.path.exists(f): continue
    sv=json.load(open(f))['coverage'].get('analysed',{}).get('self_validation')
    if not sv or not sv.get('results'): continue
    nb=sum(1 for r in sv['results'] if r['Expect']=='none')
    nbs=sum(1 for r in sv['results'] if r['Expect']=='none' and not r.get('Fired'))
    print(f"| {pid}: {nb} behaviour-preserving variants (benign/*, selftest benign-*) | benign rewrite | none | {nbs} of {nb} silent | |")
    for r in sv['results']:
        if r['Expect']=='none' and not r.get('Fired'): continue
        kind='independent seed' if r['Name'].startswith('seeded/') else ('benign rewrite' if r['Expect']=='none' else 'hand-made mutant')
        fired=(r.get('Fired') or [''])[0].replace('|','\\|')
        exp=r['Expect'].replace('|','\\|')
        print(f"| {pid}: {r['Name']} | {kind} | {exp[:70]} | {r['Status']} | {fired[:110]} |")
