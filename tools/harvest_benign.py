#!/usr/bin/env python3
"""usage: tools/harvest_benign.py <group-dir> [P-k ...]
Takes behaviour-preserving refactorings produced by an independent sub-agent under <group-dir>/out/<P>-<k>/,
verifies each against a scratch copy of /repo (applies, builds, full suite passes), stores the confirmed ones as
/verif/benign/<P>-<k>/ {patch.diff, notes.md, meta.json} and runs EVERY property's check against the variant:
each must stay silent. Prints one line per variant."""
import sys,os,subprocess,json,shutil,tempfile,concurrent.futures as cf
ENV=dict(os.environ,GOFLAGS='-mod=mod',GOPROXY='off'); ENV.pop('GOTOOLCHAIN',None); ENV.pop('GOSUMDB',None); ENV.pop('GOWORK',None)
PROPS=[f'C{i:02d}' for i in range(1,21)]
def sh(cmd,cwd,env=ENV,timeout=900):
    p=subprocess.run(cmd,shell=True,cwd=cwd,env=env,capture_output=True,text=True,timeout=timeout)
    return p.returncode,(p.stdout+p.stderr)
def checks(T):
    os.makedirs(T+'/verif',exist_ok=True); shutil.copy('/verif/known_findings.json',T+'/verif/')
    def one(p):
        vd=tempfile.mkdtemp(prefix='bv.'); shutil.copy('/verif/known_findings.json',vd)
        try:
            rc,out=sh(f'. /verif/env.sh && /verif/bin/wtfcheck -prop {p} -tier quick -repo {T}/repo -verif {vd}',T,env=dict(os.environ))
        finally:
            shutil.rmtree(vd,ignore_errors=True)
        fired=[l for l in out.splitlines() if l.startswith(('VIOLATED','UNDECIDED','ERROR'))]
        return p,fired
    with cf.ThreadPoolExecutor(10) as ex:
        return dict(ex.map(one,PROPS))
def main():
    g=sys.argv[1]; names=sys.argv[2:] or sorted(os.listdir(g+'/out'))
    for n in names:
        d=f'{g}/out/{n}'
        if not os.path.exists(d+'/patch.diff'): print(n,'no patch'); continue
        T=tempfile.mkdtemp(prefix='benign.')
        try:
            os.makedirs(T+'/repo'); subprocess.check_call(['rsync','-a','--exclude','.git','/repo/',T+'/repo/'])
            rc,out=sh(f'patch -p1 -s -f --dry-run < {d}/patch.diff && patch -p1 -s -f < {d}/patch.diff',T+'/repo')
            if rc!=0: print(n,'PATCH DOES NOT APPLY'); continue
            rc,out=sh('go build ./...',T+'/repo')
            if rc!=0: print(n,'DOES NOT BUILD',out[-200:]); continue
            rc,out=sh('go test -vet=off -count=1 ./...',T+'/repo')
            if rc!=0: print(n,'SUITE FAILS',out[-300:]); continue
            res=checks(T)
            fired={p:f for p,f in res.items() if f}
            dst=f'/verif/benign/{n}'; os.makedirs(dst,exist_ok=True)
            shutil.copy(d+'/patch.diff',dst+'/patch.diff')
            if os.path.exists(d+'/notes.md'): shutil.copy(d+'/notes.md',dst+'/notes.md')
            base=subprocess.check_output(['git','-C','/repo','rev-parse','--short','HEAD'],text=True).strip()
            json.dump({'variant':n,'property':n.split('-')[0],'source':'independent sub-agent given only property texts and a scratch worktree; asked for behaviour-preserving refactorings',
                'verified_against_repo_commit':base,'verification':{'applies':True,'builds':True,'suite_passes':True},
                'checks_silent':not fired,'alarms':{p:[x[:300] for x in f] for p,f in fired.items()}},open(dst+'/meta.json','w'),indent=1)
            print(n,'SILENT' if not fired else 'ALARM '+' '.join(f'{p}:{len(f)}' for p,f in fired.items()))
            for p,f in fired.items():
                for x in f[:3]: print('    ',x[:260])
        finally:
            shutil.rmtree(T,ignore_errors=True)
main()
