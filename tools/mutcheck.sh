#!/bin/bash
# usage: tools/mutcheck.sh <patch.diff|-e 'sed-expr' file> <prop>...
# Copies /repo to a scratch dir outside /repo and /verif, applies a change,
# type-checks, runs the given property checks against the copy, removes the copy.
# Checker validation only: verdicts always come from analysing /repo itself.
set -u
. /verif/env.sh
T=$(mktemp -d /tmp/wtfmut.XXXXXX)
trap 'rm -rf "$T"' EXIT
mkdir -p "$T/repo" "$T/verif"
rsync -a --exclude .git /repo/ "$T/repo/"
cp /verif/known_findings.json "$T/verif/" 2>/dev/null
if [ "$1" = "-e" ]; then
  sed -i -E "$2" "$T/repo/$3" || exit 3; shift 3
else
  P=$(readlink -f "$1"); (cd "$T/repo" && patch -p1 -s < "$P") || { echo "PATCH FAILED"; exit 3; }; shift
fi
(cd "$T/repo" && go build ./... ) || { echo "MUTANT DOES NOT BUILD"; exit 4; }
rc=0
for p in "$@"; do
  /verif/bin/wtfcheck -prop "$p" -repo "$T/repo" -verif "$T/verif" | grep -E "^(VIOLATED|UNDECIDED|VIOLATION|ERROR|C[0-9]+ tier)" | sed "s#$T/##g"
done
