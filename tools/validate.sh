#!/bin/bash
# validates MANIFEST.json and every evidence file against the given schemas
python3-vt - <<'PY'
import json,jsonschema,glob,sys
jsonschema.validate(json.load(open('/verif/MANIFEST.json')),json.load(open('/root/.vp/MANIFEST.schema.json')))
s=json.load(open('/root/.vp/EVIDENCE.schema.json'))
for f in sorted(glob.glob('/verif/evidence/*.json')):
    jsonschema.validate(json.load(open(f)),s)
m=json.load(open('/verif/MANIFEST.json'))
ids={c['property_id'] for c in m['checks']}|{n['property_id'] for n in m['not_applicable']}
assert ids=={'C%02d'%i for i in range(1,21)},ids
print('manifest+evidence valid;',len(m['checks']),'claimed')
PY
