#!/usr/bin/env python3
"""usage: tools/benign_recheck.py [--all-props | --props=C03,C06] [variant ...]
(--props runs just those checks over the variants and leaves meta.json alone)
Re-runs, for each stored benign variant, the checks that raised an alarm last time (or all 20 with --all-props),
updates benign/<v>/meta.json and prints what still fires."""
import sys,os,subprocess,json,shutil,tempfile,concurrent.futures as cf
args=[a for a in sys.argv[1:] if not a.startswith('--')]
allp='--all-props' in sys.argv
only=[a.split('=',1)[1].split(',') for a in sys.argv[1:] if a.startswith('--props=')]
only=only[0] if only else None
subprocess.check_call('cd /verif && . ./env.sh && cd checker && go build -o ../bin/wtfcheck ./cmd/wtfcheck',shell=True)
PROPS=[f'C{i:02d}' for i in range(1,21)]
vs=args or sorted(os.listdir('/verif/benign'))
def run(v):
    d=f'/verif/benign/{v}'; meta=json.load(open(d+'/meta.json'))
    props=only or (PROPS if allp else sorted(meta.get('alarms',{}).keys()))
    if not props: return v,{},meta
    T=tempfile.mkdtemp(prefix='benign.')
    try:
        os.makedirs(T+'/repo'); subprocess.check_call(['rsync','-a','--exclude','.git','/repo/',T+'/repo/'])
        p=subprocess.run(f'patch -p1 -s -f < {d}/patch.diff',shell=True,cwd=T+'/repo',capture_output=True,text=True)
        if p.returncode!=0: return v,{'PATCH':['does not apply']},meta
        out={}
        for pr in props:
            vd=tempfile.mkdtemp(prefix='bv.'); shutil.copy('/verif/known_findings.json',vd)
            r=subprocess.run(f'. /verif/env.sh && /verif/bin/wtfcheck -prop {pr} -tier quick -repo {T}/repo -verif {vd}',shell=True,capture_output=True,text=True)
            shutil.rmtree(vd,ignore_errors=True)
            fired=[l for l in (r.stdout+r.stderr).splitlines() if l.startswith(('VIOLATED','UNDECIDED','ERROR'))]
            if fired: out[pr]=fired
        return v,out,meta
    finally:
        shutil.rmtree(T,ignore_errors=True)
with cf.ThreadPoolExecutor(8) as ex:
    for v,out,meta in ex.map(run,vs):
        if not only and (allp or out or meta.get('alarms')):
            if not allp:
                # keep alarms of props not re-run
                pass
            meta['alarms']={p:[x[:300] for x in f] for p,f in out.items()}
            meta['checks_silent']=not out
            json.dump(meta,open(f'/verif/benign/{v}/meta.json','w'),indent=1)
        print(v,'SILENT' if not out else 'ALARM '+' '.join(f'{p}:{len(f)}' for p,f in out.items()))
        for p,f in out.items():
            for x in f[:4]: print('     ',x[:330])
