#!/usr/bin/env python3
import json,sys,subprocess,os
pid=sys.argv[1]
props={json.loads(l)['id']:json.loads(l) for l in open('/verif/properties.jsonl')}
p=props[pid]
base=f'/tmp/seed/{pid}'
os.makedirs(base+'/out',exist_ok=True)
if not os.path.exists(base+'/wt'):
    subprocess.check_call(['git','-C','/repo','worktree','add','--detach',base+'/wt','HEAD'],stdout=subprocess.DEVNULL,stderr=subprocess.DEVNULL)
txt=f"""You are helping to evaluate how well a verification suite detects regressions in a Go project (Vedant9500/WTF: a CLI that finds shell commands from natural-language queries using a BM25F inverted index, TF-IDF reranking, NLP heuristics and an LRU result cache).

You have your own scratch git worktree of the project at {base}/wt (detached HEAD). Work ONLY inside {base}/ . Do NOT read or touch /repo or /verif, and do not look anywhere else for hints about how the property is checked.

Go environment (the sandbox is offline): prefix every go command with `GOFLAGS=-mod=mod GOPROXY=off` and nothing else, e.g. `cd {base}/wt && GOFLAGS=-mod=mod GOPROXY=off go test -vet=off -count=1 ./...` (the full suite takes ~10 s and currently passes).

Here is a semantic property of the project that is supposed to hold (JSON):

{json.dumps(p,indent=1)}

TASK: produce up to THREE independent, realistic source changes (each one separately, each starting from the clean worktree) to the project's NON-test code that BREAK this property, such that for each change:
  1. the project still compiles (`go build ./...`) and `go vet`-free is not required;
  2. the ENTIRE existing test suite still passes, unedited (run the command above);
  3. the break is subtle: it needs something specific to manifest — a particular interleaving, a fault at a particular point, a multi-step sequence of operations, an unusual input/option combination, or two cooperating sites that each look fine alone — NOT something ordinary use would expose at once. It should look like a plausible refactoring/optimisation/bug-fix gone wrong that a maintainer could merge, not sabotage (no dead `if false`, no comments announcing the bug);
  4. you provide a demonstration (a new Go test file, or a small program) that FAILS with the change applied and PASSES on the clean worktree. Keep the demonstration in a NEW file (e.g. internal/<pkg>/zz_seed_demo_test.go) and do not include it in the patch.
Prefer three changes that use different mechanisms / different code sites relevant to different clauses of the property.

DELIVERABLES, for change k = 1,2,3, under {base}/out/k/ :
  - patch.diff   : output of `git diff` for the source change only (must apply with `git apply` on the clean tree at this commit)
  - the demonstration file(s), plus a one-line file demo_path.txt saying where in the tree each must be copied (relative path) and the exact command that runs it
  - notes.md     : which clause of the property breaks, what is needed for it to manifest, what you ran and observed (with and without the change)
Before finishing, for each change verify from a clean tree: apply patch -> build OK -> full suite passes -> demo fails; then `git checkout -- . ` (and remove the demo) -> demo passes when copied in alone. Leave the worktree clean (git status empty apart from nothing) when you finish. Report briefly what you produced.
"""
open(base+'/prompt.txt','w').write(txt)
print(base+'/prompt.txt')
