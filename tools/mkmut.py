#!/usr/bin/env python3
"""usage: tools/mkmut.py <prop> <name> <file> <<< 'old\n====\nnew'  -> writes selftest/<prop>/<name>.patch (unified diff against /repo)"""
import sys,subprocess,os,tempfile
prop,name,rel=sys.argv[1:4]
old,new=sys.stdin.read().split('\n====\n')
old=old.strip('\n'); new=new.strip('\n')
src=open('/repo/'+rel).read()
assert src.count(old)==1,('old text occurs %d times'%src.count(old))
dst=src.replace(old,new)
with tempfile.NamedTemporaryFile('w',delete=False) as f: f.write(dst); tmp=f.name
d=subprocess.run(['diff','-u','--label','a/'+rel,'--label','b/'+rel,'/repo/'+rel,tmp],capture_output=True,text=True).stdout
os.unlink(tmp)
os.makedirs(f'/verif/selftest/{prop}',exist_ok=True)
open(f'/verif/selftest/{prop}/{name}.patch','w').write(d)
print('wrote',name)
