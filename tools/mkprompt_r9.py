#!/usr/bin/env python3
"""usage: tools/mkprompt_r9.py seed|benign <group-name> <PROP> [<PROP> ...]
Round 9. Creates /tmp/r9/<group>/wt (a detached git worktree of /repo) and /tmp/r9/<group>/prompt.txt.
The prompt carries only the property texts; nothing from /verif.
Flavour of round 9: performance work and robustness hardening (memoisation, fast paths, early exits,
buffer reuse, lazy initialisation, batching, pre-sizing, retries, defensive copies removed) —
seeds: done subtly wrong, so that the break shows only on a later call, after a particular earlier
operation, or at a boundary size; benign: the same kind of work done right."""
import json,sys,subprocess,os
kind,group=sys.argv[1],sys.argv[2]; pids=sys.argv[3:]
props={json.loads(l)['id']:json.loads(l) for l in open('/verif/properties.jsonl')}
base=f'/tmp/r9/{group}'
os.makedirs(base+'/out',exist_ok=True)
if not os.path.exists(base+'/wt'):
    subprocess.check_call(['git','-C','/repo','worktree','add','--detach',base+'/wt','HEAD'],stdout=subprocess.DEVNULL,stderr=subprocess.DEVNULL)
head=f"""You are helping to evaluate how well a verification suite detects regressions in a Go project (Vedant9500/WTF: a CLI that finds shell commands from natural-language queries using a BM25F inverted index, TF-IDF reranking, NLP heuristics and an LRU result cache).

You have your own scratch git worktree of the project at {base}/wt (detached HEAD). Work ONLY inside {base}/ . Do NOT read or touch /repo or /verif, and do not look anywhere else for hints about how the properties are checked.

Go environment (the sandbox is offline): prefix every go command with `GOFLAGS=-mod=mod GOPROXY=off` and nothing else, e.g. `cd {base}/wt && GOFLAGS=-mod=mod GOPROXY=off go test -vet=off -count=1 ./...` (the full suite takes ~10 s and currently passes).

Here are {len(pids)} semantic properties of the project that are supposed to hold (JSON, one per block):

"""
body='\n\n'.join(json.dumps(props[p],indent=1) for p in pids)
if kind=='seed':
    task=f"""

TASK: for EACH of the properties above produce ONE realistic source change (each separately, each starting from the clean worktree) to the project's NON-test code that BREAKS that property, such that:
  1. the project still compiles (`go build ./...`);
  2. the ENTIRE existing test suite still passes, unedited (run the command above);
  3. the change is a piece of PERFORMANCE WORK or ROBUSTNESS HARDENING that a maintainer could plausibly merge — memoisation or a small cache, a fast path, an early exit, reuse of a buffer/slice/map between calls, lazy initialisation, batching, pre-sizing, avoiding a copy, skipping "redundant" work, a retry or fallback, a tightened or reordered guard — done subtly WRONG. 20-80 changed lines. No sabotage (no dead `if false`, no comments announcing the bug), and write the commit-message-style rationale a maintainer would give in notes.md;
  4. the break is subtle: it needs something specific to manifest — it shows only on a LATER call (state carried from an earlier call on the same object), after a particular earlier operation (a save, a reload, an invalidation, a failed attempt), at a boundary size or count, under a particular interleaving, or after a fault at a particular point — NOT something ordinary single-shot use would expose at once;
  5. you provide a demonstration (a new Go test file) that FAILS with the change applied and PASSES on the clean worktree. Keep the demonstration in a NEW file (e.g. internal/<pkg>/zz_seed_demo_test.go) and do not include it in the patch.

DELIVERABLES, for each property <P> (e.g. C07), under {base}/out/<P>-1/ :
  - patch.diff   : output of `git diff` for the source change only (must apply with `git apply` on the clean tree at this commit)
  - the demonstration file, plus a file demo_path.txt with exactly two lines:
        <file name in this directory> -> <relative path in the tree where it must be copied, ending in _test.go>
        go test -vet=off -count=1 -run <TestName> ./internal/<pkg>/
  - notes.md     : the maintainer-style rationale, which clause of the property breaks, what is needed for it to manifest, what you ran and observed (with and without the change)
Before finishing, for each change verify from a clean tree: apply patch -> build OK -> full suite passes -> demo fails; then `git checkout -- .` (keep the demo) -> demo passes. Leave the worktree clean (`git status` empty) when you finish. Report briefly what you produced (one paragraph per property).
"""
else:
    task=f"""

TASK: for EACH of the properties above produce ONE realistic source change (each separately, each starting from the clean worktree) to the project's NON-test code that touches the code the property is about (the files and functions its anchors name, or their callers/helpers) and that PRESERVES the property and all observable behaviour. The change is a piece of PERFORMANCE WORK or ROBUSTNESS HARDENING done RIGHT — memoisation or a small cache that is invalidated correctly, a fast path that is exactly equivalent, an early exit, reuse of a buffer between calls that cannot leak state, lazy initialisation, batching, pre-sizing, avoiding a copy where no one can observe the aliasing, skipping work that is provably redundant, a tightened or reordered guard — 20-80 changed lines, the kind of pull request a maintainer would merge. Requirements:
  1. the project still compiles (`go build ./...`) and the ENTIRE existing test suite still passes, unedited;
  2. behaviour is unchanged for every input, option set, sequence of calls and interleaving — argue this in notes.md, and where cheap add a differential or sequence test (in a NEW file that is not part of the patch) comparing against the old behaviour;
  3. the property still holds — say in notes.md why each clause is unaffected.

DELIVERABLES, for each property <P> (e.g. C07), under {base}/out/<P>-15/ :
  - patch.diff   : output of `git diff` for the source change only (must apply with `git apply` on the clean tree at this commit)
  - notes.md     : rationale, why behaviour and the property are preserved, what you ran
Before finishing, for each change verify from a clean tree: apply patch -> build OK -> full suite passes; then `git checkout -- .`. Leave the worktree clean (`git status` empty) when you finish. Report briefly what you produced (one paragraph per property).
"""
open(base+'/prompt.txt','w').write(head+body+task)
print(base+'/prompt.txt')
