#!/bin/bash
# usage: tools/seedcheck.sh <prop>...   — runs every seeded/<prop>-*/patch.diff and selftest/<prop>/*.patch
# against that property's check (and the checks named in caught_by) and prints one line per patch.
. /verif/env.sh
for P in "$@"; do
  for d in /verif/seeded/$P-*; do
    by=$(python3 -c "import json;m=json.load(open('$d/meta.json'));print(' '.join(m.get('caught_by') or ['$P']))")
    out=$(/verif/tools/mutcheck.sh $d/patch.diff $by 2>&1)
    if echo "$out" | grep -q "^VIOLATED\|^UNDECIDED"; then echo "$(basename $d) caught ($by)"; else echo "$(basename $d) MISSED ($by)"; fi
  done
  for f in /verif/selftest/$P/*.patch; do
    [ -e "$f" ] || continue
    out=$(/verif/tools/mutcheck.sh $f $P 2>&1)
    n=$(echo "$out" | grep -c "^VIOLATED\|^UNDECIDED")
    case $(basename $f) in benign-*) [ $n -eq 0 ] && echo "$(basename $f) silent" || echo "$(basename $f) FALSE-ALARM";; *) [ $n -gt 0 ] && echo "$(basename $f) fired" || echo "$(basename $f) MISSED";; esac
  done
done
